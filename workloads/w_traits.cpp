// w_traits — C11, static-trait clauses: what a sender *claims* (blocking kind, sends_done) against
// what it *does*, for typed (un-erased) expressions over leaves whose own claims are true by
// construction, on every schedule:
//   blocking == always_inline  =>  the receiver is completed inside start(), on the starting thread
//   blocking == always         =>  the receiver is completed before start() returns
//   (blocking == never is only counted: the property as given does not constrain it)
//   sends_done == false        =>  the receiver never gets set_done, whatever the stop timing
// One (expression, leaf flavours) case per run; leaf outcomes, inline/deferred choice of `maybe`
// leaves and the stop request (before start / racing / none) are drawn. C++17-compatible.
#include <kit/base.hpp>
#include <kit/gate.hpp>
#include <kit/items.hpp>
#include <kit/recv.hpp>

#include <unifex/allocate.hpp>
#include <unifex/blocking.hpp>
#include <unifex/dematerialize.hpp>
#include <unifex/done_as_optional.hpp>
#include <unifex/finally.hpp>
#include <unifex/inline_scheduler.hpp>
#include <unifex/into_variant.hpp>
#include <unifex/just.hpp>
#include <unifex/just_done.hpp>
#include <unifex/just_error.hpp>
#include <unifex/let_done.hpp>
#include <unifex/let_error.hpp>
#include <unifex/let_value.hpp>
#include <unifex/let_value_with.hpp>
#include <unifex/let_value_with_stop_source.hpp>
#include <unifex/let_value_with_stop_token.hpp>
#include <unifex/manual_event_loop.hpp>
#include <unifex/materialize.hpp>
#include <unifex/on.hpp>
#include <unifex/scheduler_concepts.hpp>
#include <unifex/sender_concepts.hpp>
#include <unifex/sequence.hpp>
#include <unifex/single_thread_context.hpp>
#include <unifex/static_thread_pool.hpp>
#include <unifex/stop_when.hpp>
#include <unifex/then.hpp>
#include <unifex/timed_single_thread_context.hpp>
#include <unifex/trampoline_scheduler.hpp>
#include <unifex/unstoppable.hpp>
#include <unifex/upon_done.hpp>
#include <unifex/upon_error.hpp>
#include <unifex/via.hpp>
#include <unifex/when_all.hpp>
#include <unifex/with_query_value.hpp>

using namespace kit;

namespace wtraits {

struct World {
  Gate g[2];
  OpRec rec;
  unifex::inplace_stop_source stop;
  int stop_mode = 0;  // 0 none, 1 before start, 2 racing
  int stop_yields = 0;
  volatile int finished = 0;
  const char* case_name = "";
};
World* g_w = nullptr;

// leaf flavours: K 0 = always_inline, 2 = maybe, 3 = never; SD = may complete with done
template <int K, bool SD, int Idx>
struct leaf : gate_sender {
  template <template <class...> class Variant, template <class...> class Tuple>
  using value_types = Variant<Tuple<long>>;
  static constexpr bool sends_done = SD;
  static constexpr unifex::blocking_kind blocking =
      K == 0 ? unifex::blocking_kind(unifex::blocking_kind::always_inline) : K == 3 ? unifex::blocking_kind(unifex::blocking_kind::never)
                                                                              : unifex::blocking_kind(unifex::blocking_kind::maybe);
  leaf() : gate_sender{&g_w->g[Idx]} {
    Gate& gg = g_w->g[Idx];
    if (K == 0) gg.mode = 0;       // completes inside start()
    if (K == 3) { gg.mode = 1; gg.on_stop = 0; }  // completes only from the opener thread
    if (!SD) { gg.on_stop = 0; if (gg.outcome == CH_DONE) gg.outcome = CH_VALUE; }
  }
};
using AI = leaf<0, false, 0>;
using AIsd = leaf<0, true, 0>;
using MB = leaf<2, true, 0>;
using NV = leaf<3, true, 0>;
using NVnd = leaf<3, false, 0>;  // completes later on another thread, never with done
using MBnd = leaf<2, false, 0>;
template <class L>
struct second;  // the same flavour on gate 1
template <int K, bool SD>
struct second<leaf<K, SD, 0>> { using type = leaf<K, SD, 1>; };
template <class L>
using second_t = typename second<L>::type;

const char* bk_name(unifex::blocking_kind b) {
  switch (b.value) {
    case unifex::blocking_kind::always_inline: return "always_inline";
    case unifex::blocking_kind::always: return "always";
    case unifex::blocking_kind::never: return "never";
    default: return "maybe";
  }
}

// Dyn=false: the blocking() CPO is not asked. (the customisations of it in finally, let_value, let_error and sequence do not compile when
// instantiated - inside those classes the unqualified name `blocking` finds the static data member - and via/on are built on them; DESIGN.md 0.3.)
template <bool Dyn = true, class Sender>
void drive(World* w, Sender snd) {
  using S = unifex::inline_scheduler;
  constexpr bool sd = unifex::sender_traits<Sender>::sends_done;
  constexpr auto sbk = unifex::sender_traits<Sender>::blocking;
  unifex::blocking_kind bk = sbk;
  if constexpr (Dyn) bk = unifex::blocking(snd);
  {
    usim::np_scope np;
    // the value returned by the blocking() CPO may refine the static trait, never contradict it
    unifex::blocking_kind st = sbk;
    KIT_CHECK(st.value == unifex::blocking_kind::maybe || st.value == bk.value, "c11.trait-static-vs-dynamic", "%s: sender_traits<>::blocking is %s but blocking(sender) returns %s",
              w->case_name, bk_name(st), bk_name(bk));
  }
  w->rec.what = w->case_name;
  w->rec.oracle_double = "c01.double-signal";
  w->rec.stop = &w->stop;
  started_op<S, Sender> op;
  gate_opener opener{w->g, 2, &w->finished, 0};
  std::thread opener_thr([&opener] { opener.run(); });
  std::thread stopper([w] {
    if (w->stop_mode != 2) return;
    struct P { World* w; static int pred(void* p) { auto* q = (P*)p; return q->w->rec.start_begin != 0; } } p{w};
    usim_wait(&P::pred, &p);
    yields(w->stop_yields);
    w->rec.request_stop();
  });
  if (w->stop_mode == 1) w->rec.request_stop();
  int start_tid = usim_here();
  op.start(&w->rec, S{}, std::move(snd));
  w->rec.wait();
  op.destroy();
  w->finished = 1;
  opener_thr.join();
  stopper.join();
  {
    usim::np_scope np;
    OpRec& r = w->rec;
    bool inline_here = r.in_start && r.done_tid == start_tid;
    if (bk.value == unifex::blocking_kind::always_inline) {
      KIT_CHECK(inline_here, "c11.blocking", "%s claims blocking=always_inline but completed %s (T%d, start on T%d)", w->case_name, r.in_start ? "on another thread" : "after start() returned", r.done_tid, start_tid);
      usim_probe("always_inline claim checked");
    } else if (bk.value == unifex::blocking_kind::always) {
      KIT_CHECK(r.in_start, "c11.blocking", "%s claims blocking=always but completed after start() returned", w->case_name);
      usim_probe("always claim checked");
    } else if (bk.value == unifex::blocking_kind::never) {
      // (C11 as given constrains always_inline, always and sends_done=false only: a broken `never` is counted, not reported.
      //  when_all(never, always_inline) does complete inline when the never-child finishes on another thread first.)
      if (inline_here) usim_probe("NOTE never claim broken (outside C11)"); else usim_probe("never claim held");
    }
    // is_always_scheduler_affine: consumers (task<>'s await_transform, with_scheduler_affinity) skip the hop back to their scheduler for
    // such a sender. The receiver here reports the inline scheduler and every leaf's own claim is "affine iff always_inline", so a
    // composite that claims affinity must complete on the thread that started it.
    if constexpr (unifex::sender_traits<Sender>::is_always_scheduler_affine) {
      KIT_CHECK(r.done_tid == start_tid, "c11.affine", "%s claims is_always_scheduler_affine but completed on T%d, not on the thread that started it (T%d)", w->case_name, r.done_tid, start_tid);
      usim_probe("scheduler-affine claim checked");
    }
    if (!sd) {
      KIT_CHECK(r.channel != CH_DONE, "c11.sends-done", "%s claims sends_done=false but completed with done (stop_mode %d)", w->case_name, w->stop_mode);
      usim_probe("sends_done=false claim checked");
    }
    if (r.channel == CH_DONE) usim_probe("completed with done");
  }
}

// ------------------------------------------------------------------ expressions
auto void_of = [](auto s) { return unifex::then(std::move(s), [](auto&&...) noexcept {}); };

template <class L> void e_leaf(World* w) { drive(w, L{}); }
template <class L> void e_then(World* w) { drive(w, unifex::then(L{}, [](long v) noexcept { return v + 1; })); }
template <class L> void e_upon_error(World* w) { drive(w, unifex::upon_error(L{}, [](auto&&) noexcept { return 7L; })); }
template <class L> void e_upon_done(World* w) { drive(w, unifex::upon_done(L{}, []() noexcept { return 8L; })); }
template <class L> void e_materialize(World* w) { drive(w, unifex::materialize(L{})); }
template <class L> void e_mat_demat(World* w) { drive(w, unifex::dematerialize(unifex::materialize(L{}))); }
template <class L> void e_wqv(World* w) { drive(w, unifex::with_query_value(L{}, unifex::get_scheduler, unifex::inline_scheduler{})); }
template <class L> void e_unstoppable(World* w) { drive(w, unifex::unstoppable(L{})); }
template <class L> void e_lvwss(World* w) { drive(w, unifex::let_value_with_stop_source([](auto&) noexcept { return L{}; })); }
template <class L> void e_lvwst(World* w) { drive(w, unifex::let_value_with_stop_token([](auto) noexcept { return L{}; })); }
template <class L> void e_lvw(World* w) { drive(w, unifex::let_value_with([]() noexcept { return 3; }, [](int&) noexcept { return L{}; })); }
template <class L> void e_into_variant(World* w) { drive(w, unifex::into_variant(L{})); }
template <class L> void e_dao(World* w) { drive(w, unifex::done_as_optional(L{})); }
template <class L> void e_allocate(World* w) { drive(w, unifex::allocate(L{})); }
template <class L> void e_via_inline(World* w) { drive(w, unifex::via(L{}, unifex::inline_scheduler{})); }
template <class L> void e_on_inline(World* w) { drive(w, unifex::on(unifex::inline_scheduler{}, L{})); }

template <class A, class B> void e_let_value(World* w) { drive(w, unifex::let_value(A{}, [](long&) noexcept { return second_t<B>{}; })); }
template <class A, class B> void e_let_error(World* w) { drive(w, unifex::let_error(A{}, [](auto&&) noexcept { return second_t<B>{}; })); }
template <class A, class B> void e_let_done(World* w) { drive(w, unifex::let_done(A{}, []() noexcept { return second_t<B>{}; })); }
template <class A, class B> void e_sequence(World* w) { drive(w, unifex::sequence(void_of(A{}), second_t<B>{})); }
template <class A, class B> void e_finally(World* w) { drive(w, unifex::finally(A{}, void_of(second_t<B>{}))); }
template <class A, class B> void e_when_all(World* w) { drive(w, unifex::when_all(A{}, second_t<B>{})); }
template <class A, class B> void e_stop_when(World* w) { drive(w, unifex::stop_when(A{}, void_of(second_t<B>{}))); }

// schedulers: the claim of schedule() itself, and via/on over a real context
struct Ctxs {
  arena_box<unifex::single_thread_context> single;
  arena_box<unifex::static_thread_pool> pool;
  arena_box<unifex::timed_single_thread_context> timed;
};
template <class F>
void with_single(World* w, F f) {
  arena_box<unifex::single_thread_context> c;
  c.construct();
  f(c->get_scheduler());
  c.destroy();
}
void e_sched_single(World* w) { with_single(w, [w](auto s) { drive(w, unifex::then(unifex::schedule(s), []() noexcept { return 1L; })); }); }
void e_sched_pool(World* w) {
  arena_box<unifex::static_thread_pool> c;
  c.construct(2);
  drive(w, unifex::then(unifex::schedule(c->get_scheduler()), []() noexcept { return 1L; }));
  c.destroy();
}
void e_sched_timed(World* w) {
  arena_box<unifex::timed_single_thread_context> c;
  c.construct();
  drive(w, unifex::then(unifex::schedule(c->get_scheduler()), []() noexcept { return 1L; }));
  c.destroy();
}
void e_sched_timed_after(World* w) {
  arena_box<unifex::timed_single_thread_context> c;
  c.construct();
  drive(w, unifex::then(unifex::schedule_after(c->get_scheduler(), std::chrono::microseconds(draw(3) * 50)), []() noexcept { return 1L; }));
  c.destroy();
}
void e_sched_trampoline(World* w) { drive(w, unifex::then(unifex::schedule(unifex::trampoline_scheduler{4}), []() noexcept { return 1L; })); }
void e_sched_inline(World* w) { drive(w, unifex::then(unifex::schedule(unifex::inline_scheduler{}), []() noexcept { return 1L; })); }
template <class L> void e_via_single(World* w) { with_single(w, [w](auto s) { drive(w, unifex::via(L{}, s)); }); }
template <class L> void e_on_single(World* w) { with_single(w, [w](auto s) { drive(w, unifex::on(s, L{})); }); }

struct Case { const char* name; void (*run)(World*); };
#define U1(e, L) {#e "(" #L ")", &e<L>}
#define UNARY(e) U1(e, AI), U1(e, AIsd), U1(e, MB), U1(e, NV)
#define B1(e, A, B) {#e "(" #A "," #B ")", &e<A, B>}
#define BINARY(e) B1(e, AI, AI), B1(e, AIsd, AIsd), B1(e, AI, NV), B1(e, NV, AI), B1(e, MB, MB), B1(e, AIsd, NV), B1(e, AIsd, NVnd), B1(e, AIsd, MBnd)
const Case kCases[] = {
    UNARY(e_leaf), UNARY(e_then), UNARY(e_upon_error), UNARY(e_upon_done), UNARY(e_materialize), UNARY(e_mat_demat), UNARY(e_wqv), UNARY(e_unstoppable),
    UNARY(e_lvwss), UNARY(e_lvwst), UNARY(e_lvw), UNARY(e_into_variant), UNARY(e_dao), UNARY(e_allocate), UNARY(e_via_inline), UNARY(e_on_inline),
    BINARY(e_let_value), BINARY(e_let_error), BINARY(e_let_done), BINARY(e_sequence), BINARY(e_finally), BINARY(e_when_all), BINARY(e_stop_when),
    {"then(schedule(single_thread_context))", &e_sched_single}, {"then(schedule(static_thread_pool))", &e_sched_pool}, {"then(schedule(timed_single_thread_context))", &e_sched_timed},
    {"then(schedule_after(timed_single_thread_context))", &e_sched_timed_after}, {"then(schedule(trampoline))", &e_sched_trampoline}, {"then(schedule(inline))", &e_sched_inline},
    U1(e_via_single, AI), U1(e_via_single, MB), U1(e_on_single, AI), U1(e_on_single, MB), U1(e_on_single, NV),
};
constexpr int kNumCases = (int)(sizeof kCases / sizeof kCases[0]);

void body_traits(void*) {
  World* w;
  { usim::np_scope np; w = new World(); g_w = w; }
  int c = draw(kNumCases);
  w->case_name = kCases[c].name;
  for (int i = 0; i < 2; ++i) {
    Gate& g = w->g[i];
    g.id = i;
    int o = draw(6);
    g.outcome = o < 3 ? CH_VALUE : o < 5 ? CH_ERROR : CH_DONE;
    g.payload = 100 + i;
    g.mode = draw(2);
    g.on_stop = draw(3) == 0 ? 0 : 1;
  }
  int sm = draw(6);
  w->stop_mode = sm < 3 ? 0 : sm < 4 ? 1 : 2;
  w->stop_yields = draw_small(10);
  if (draw(4) == 0) usim_fault_rate(USIM_F_CAS_WEAK, 100);
  usim_sample("traits: %s outcomes=%s/%s modes=%d/%d stop_mode=%d", w->case_name, ch_name(w->g[0].outcome), ch_name(w->g[1].outcome), w->g[0].mode, w->g[1].mode, w->stop_mode);
  kCases[c].run(w);
  { usim::np_scope np; g_w = nullptr; delete w; }
}

}  // namespace wtraits

int main(int argc, char** argv) {
  static const usim_workload table[] = {{"traits", wtraits::body_traits}};
  return usim_main(argc, argv, table, 1);
}
