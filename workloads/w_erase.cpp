// w_erase — C18(b): any_object / any_unique behave exactly like the object they wrap.
// Seeded operation sequences (construct, move-construct, move-assign wrapper or value,
// invoke, destroy) with throwing moves and failing allocations against a trivial reference
// model; tracked wrapped types decide exactly-once destruction and "moved, never copied".
// Honest scope: no concurrency or time here; this family contributes seeded op+fault
// sequences, the arena (poison, double free, leak) and replay/shrinking. See DESIGN.md §8 C18.
#include <kit/base.hpp>

#include <unifex/any_object.hpp>
#include <unifex/any_unique.hpp>
#include <unifex/this.hpp>

#include <new>
#include <optional>

using namespace kit;

namespace {

inline constexpr struct get_id_cpo {
  using type_erased_signature_t = long(const unifex::this_&) noexcept;
  template <class T>
  long operator()(const T& x) const noexcept {
    // callable for every type (any_object also erases its internal "invalid" object): -1 = no answer
    if constexpr (unifex::is_tag_invocable_v<get_id_cpo, const T&>) return unifex::tag_invoke(get_id_cpo{}, x);
    else return -1;
  }
} get_id{};

struct Reg {
  struct Obj { const void* addr; long id; bool alive; };
  hvec<Obj> objs;
  int alive = 0, copies = 0, constructed = 0, destroyed = 0;
  int move_throw_at = 0, moves = 0;  // the k-th move of a throwing-move type throws
  bool threw = false;
};
Reg* g_reg = nullptr;

struct injected_move_throw {
  long id;
};

template <size_t Pad, bool NoexceptMove, size_t Align>
struct alignas(Align) Tracked {
  long id;
  unsigned char pad[Pad];
  explicit Tracked(long i) : id(i) { born(); }
  Tracked(const Tracked& o) : id(o.id) { usim::np_scope np; g_reg->copies++; born(); }
  Tracked(Tracked&& o) noexcept(NoexceptMove) : id(o.id) {
    if constexpr (!NoexceptMove) {
      usim::np_scope np;
      if (g_reg->move_throw_at && ++g_reg->moves == g_reg->move_throw_at) { g_reg->threw = true; throw injected_move_throw{id}; }
    }
    check(&o, "move-from");
    born();
    o.id = -o.id - 1000000;  // moved-from remainder: still destructible, never observable through the wrapper
    {
      usim::np_scope np;
      for (size_t i = g_reg->objs.size(); i-- > 0;)
        if (g_reg->objs[i].addr == &o && g_reg->objs[i].alive) { g_reg->objs[i].id = o.id; break; }
    }
  }
  ~Tracked() {
    usim::np_scope np;
    for (size_t i = g_reg->objs.size(); i-- > 0;) {
      auto& r = g_reg->objs[i];
      if (r.addr == this && r.alive) { r.alive = false; g_reg->alive--; g_reg->destroyed++; return; }
    }
    usim_report("c18.destroy", "wrapped object (id %ld) destroyed that is not alive: double destruction or destruction of garbage", id);
  }
  void born() {
    usim::np_scope np;
    for (auto& r : g_reg->objs)
      if (r.addr == this && r.alive) usim_report("c18.destroy", "wrapped object constructed over a live one");
    KIT_CHECK(((uintptr_t)this % Align) == 0, "c18.model", "wrapped object of alignment %zu stored at a misaligned address", Align);
    g_reg->objs.push_back(Reg::Obj{this, id, true});
    g_reg->alive++;
    g_reg->constructed++;
  }
  static void check(const void* p, const char* how) {
    usim::np_scope np;
    for (size_t i = g_reg->objs.size(); i-- > 0;)
      if (g_reg->objs[i].addr == p) { KIT_CHECK(g_reg->objs[i].alive, "c18.destroy", "wrapped object used (%s) after destruction", how); return; }
    usim_report("c18.destroy", "wrapped object used (%s) that was never constructed", how);
  }
  friend long tag_invoke(get_id_cpo, const Tracked& t) noexcept { check(&t, "invoke"); return t.id; }
};
using Small = Tracked<1, true, 8>;         // inline
using Large = Tracked<100, true, 8>;       // heap
using SmallThrow = Tracked<1, false, 8>;   // inline only if noexcept move is not required
using Over = Tracked<8, true, 32>;         // over-aligned: heap (inline alignment is 8)

template <bool RequireNoexceptMove>
using any_t = unifex::basic_any_object<24, 8, RequireNoexceptMove, std::allocator<std::byte>, get_id_cpo>;

constexpr int kSlots = 3;

template <bool RNM>
void run_any_object() {
  using A = any_t<RNM>;
  std::optional<A> slot[kSlots];
  long model[kSlots];           // id held, or -1 empty slot, or -2 valueless after a throwing move
  for (int i = 0; i < kSlots; ++i) model[i] = -1;
  long next_id = 1;
  int nops = draw_range(1, 14);
  char log[600];
  int lo = 0;
  for (int k = 0; k < nops; ++k) {
    int op = draw(7);
    int a = draw(kSlots), b = draw(kSlots);
    int ty = draw(4);
    usim_trace((uint64_t)(op * 1000 + a * 100 + b * 10 + ty));
    lo += snprintf(log + lo, sizeof log - lo > 0 ? sizeof log - lo : 0, "%d:%d/%d/%d ", op, a, b, ty);
    if (lo > 560) lo = 560;
    try {
      switch (op) {
        case 0: case 1: {  // (re)construct slot a in place from a fresh value
          slot[a].reset();
          model[a] = -1;
          long id = next_id++;
          switch (ty) {
            case 0: slot[a].emplace(std::in_place_type<Small>, id); break;
            case 1: slot[a].emplace(std::in_place_type<Large>, id); break;
            case 2: slot[a].emplace(std::in_place_type<SmallThrow>, id); break;
            default: slot[a].emplace(std::in_place_type<Over>, id); break;
          }
          model[a] = id;
          break;
        }
        case 2: {  // assign a value into an existing wrapper
          if (!slot[a]) break;
          long id = next_id++;
          long before = model[a];
          model[a] = -2;  // if the assignment throws the wrapper is valueless but destructible
          switch (ty) {
            case 0: *slot[a] = Small{id}; break;
            case 1: *slot[a] = Large{id}; break;
            case 2: *slot[a] = SmallThrow{id}; break;
            default: *slot[a] = Over{id}; break;
          }
          (void)before;
          model[a] = id;
          break;
        }
        case 3: {  // move-assign wrapper b into wrapper a
          if (!slot[a] || !slot[b] || model[b] < 0) break;
          if (a == b) { *slot[a] = std::move(*slot[a]); break; }  // self move-assignment does nothing
          long idb = model[b];
          model[a] = -2;
          *slot[a] = std::move(*slot[b]);
          model[a] = idb;
          model[b] = -3;  // moved-from wrapper: destructible / assignable only
          break;
        }
        case 4: {  // move-construct slot a from wrapper b
          if (a == b || !slot[b] || model[b] < 0) break;
          slot[a].reset();
          model[a] = -1;
          long idb = model[b];
          slot[a].emplace(std::move(*slot[b]));
          model[a] = idb;
          model[b] = -3;
          break;
        }
        case 5: {  // invoke through the wrapper
          if (!slot[a] || model[a] < 0) break;
          long got = get_id(*slot[a]);
          KIT_CHECK(got == model[a], "c18.model", "wrapper %d answers id %ld, the wrapped object's id is %ld", a, got, model[a]);
          usim_probe("invoke through wrapper");
          break;
        }
        default:  // destroy
          slot[a].reset();
          model[a] = -1;
          break;
      }
    } catch (const injected_move_throw& e) {
      // exceptions of the wrapped object's operations propagate unchanged; both wrappers stay destructible
      KIT_CHECK(!RNM || true, "c18.exception", "unexpected");
      usim_probe("throwing move propagated");
      (void)e;
    } catch (const std::bad_alloc&) {
      usim_probe("allocation failure propagated");
      if (op <= 1 || op == 4) model[a] = slot[a] ? model[a] : -1;
    }
    {
      usim::np_scope np;
      KIT_CHECK(g_reg->copies == 0, "c18.copy", "the wrapped object was copied (%d copies): wrappers must move or transfer, never copy", g_reg->copies);
      // every wrapper that holds a value holds exactly one live object with that id
      for (int i = 0; i < kSlots; ++i) {
        if (model[i] < 0) continue;
        int live = 0;
        for (auto& r : g_reg->objs) if (r.alive && r.id == model[i]) ++live;
        KIT_CHECK(live == 1, "c18.model", "wrapper %d should hold object %ld but %d live objects carry that id", i, model[i], live);
      }
    }
  }
  for (int i = 0; i < kSlots; ++i) slot[i].reset();
  usim_sample("any_object<%s>: %s", RNM ? "noexcept-move" : "throwing-move-ok", log);
}

void body_any_object(void*) {
  { usim::np_scope np; g_reg = new Reg(); }
  bool rnm = draw_bool();
  if (!rnm && draw(2)) g_reg->move_throw_at = 1 + draw(5);
  if (draw(4) == 0) { usim_fault_rate(USIM_F_ALLOC, 150); usim_alloc_fault_window(1); }
  if (rnm) run_any_object<true>(); else run_any_object<false>();
  usim_alloc_fault_window(0);
  {
    usim::np_scope np;
    KIT_CHECK(g_reg->alive == 0, "c18.destroy", "%d wrapped object(s) (or moved-from remainders) never destroyed", g_reg->alive);
    KIT_CHECK(g_reg->constructed == g_reg->destroyed, "c18.destroy", "constructed %d objects, destroyed %d", g_reg->constructed, g_reg->destroyed);
    if (g_reg->threw) usim_note_nontrivial();
    if (g_reg->constructed > 3) usim_note_nontrivial();
    delete g_reg;
    g_reg = nullptr;
  }
}

// ------------------------------------------------------------------ any_unique
void body_any_unique(void*) {
  { usim::np_scope np; g_reg = new Reg(); }
  using U = unifex::any_unique<get_id_cpo>;
  if (draw(4) == 0) { usim_fault_rate(USIM_F_ALLOC, 150); usim_alloc_fault_window(1); }
  {
    std::optional<U> slot[kSlots];
    long model[kSlots] = {-1, -1, -1};
    long next_id = 1;
    int nops = draw_range(1, 12);
    for (int k = 0; k < nops; ++k) {
      int op = draw(5), a = draw(kSlots), b = draw(kSlots), ty = draw(3);
      usim_trace((uint64_t)(op * 1000 + a * 100 + b * 10 + ty));
      try {
        switch (op) {
          case 0: case 1: {
            slot[a].reset(); model[a] = -1;
            long id = next_id++;
            if (ty == 0) slot[a].emplace(std::in_place_type<Small>, id);
            else if (ty == 1) slot[a].emplace(std::in_place_type<Large>, id);
            else slot[a].emplace(std::in_place_type<Over>, id);
            model[a] = id;
            break;
          }
          case 2: {
            if (a == b || !slot[b] || model[b] < 0) break;
            slot[a].reset(); model[a] = -1;
            long idb = model[b];
            slot[a].emplace(std::move(*slot[b]));  // transfers ownership of the heap object: no move of the object itself
            model[a] = idb; model[b] = -3;
            break;
          }
          case 3: {
            if (!slot[a] || model[a] < 0) break;
            long got = get_id(*slot[a]);
            KIT_CHECK(got == model[a], "c18.model", "any_unique %d answers id %ld, expected %ld", a, got, model[a]);
            break;
          }
          default: slot[a].reset(); model[a] = -1; break;
        }
      } catch (const std::bad_alloc&) {
        usim_probe("allocation failure propagated");
      }
      usim::np_scope np;
      KIT_CHECK(g_reg->copies == 0, "c18.copy", "any_unique copied the wrapped object");
    }
    for (int i = 0; i < kSlots; ++i) slot[i].reset();
  }
  usim_alloc_fault_window(0);
  {
    usim::np_scope np;
    KIT_CHECK(g_reg->alive == 0 && g_reg->constructed == g_reg->destroyed, "c18.destroy", "any_unique: constructed %d, destroyed %d", g_reg->constructed, g_reg->destroyed);
    if (g_reg->constructed > 2) usim_note_nontrivial();
    usim_sample("any_unique: %d objects", g_reg->constructed);
    delete g_reg;
    g_reg = nullptr;
  }
}

}  // namespace

int main(int argc, char** argv) {
  static const usim_workload table[] = {{"any_object", body_any_object}, {"any_unique", body_any_unique}};
  return usim_main(argc, argv, table, 2);
}
