// w_expr — the sender interpreter: seeded expression trees over the library's
// factories and adaptors, scripted leaves, taps at every node, and local
// reference-model checks. Hosts the oracles of C01, C02, C04, C05, C11, C12.
// See DESIGN.md §3 and §8.
#include <kit/base.hpp>
#include <kit/expr.hpp>

#include <unifex/any_sender_of.hpp>
#include <unifex/async_trace.hpp>
#include <unifex/dematerialize.hpp>
#include <unifex/done_as_optional.hpp>
#include <unifex/finally.hpp>
#include <unifex/just.hpp>
#include <unifex/just_done.hpp>
#include <unifex/just_error.hpp>
#include <unifex/let_done.hpp>
#include <unifex/let_error.hpp>
#include <unifex/let_value.hpp>
#include <unifex/let_value_with_stop_source.hpp>
#include <unifex/materialize.hpp>
#include <unifex/on.hpp>
#include <unifex/retry_when.hpp>
#include <unifex/tracing/async_stack.hpp>
#include <unifex/sequence.hpp>
#include <unifex/stop_when.hpp>
#include <unifex/then.hpp>
#include <unifex/unstoppable.hpp>
#include <unifex/upon_done.hpp>
#include <unifex/upon_error.hpp>
#include <unifex/via.hpp>
#include <unifex/allocate.hpp>
#include <unifex/defer.hpp>
#include <unifex/into_variant.hpp>
#include <unifex/let_value_with.hpp>
#include <unifex/let_value_with_stop_token.hpp>
#include <unifex/variant_sender.hpp>
#include <unifex/with_allocator.hpp>
#include <unifex/repeat_effect_until.hpp>
#include <unifex/sync_wait.hpp>
#include <unifex/when_all.hpp>
#include <unifex/when_all_range.hpp>
#if defined(__cpp_impl_coroutine)  // (the header includes the coroutine machinery unconditionally: C++20 configurations only)
#include <unifex/stop_if_requested.hpp>
#define KIT_HAVE_SIR 1
#endif
#include <unifex/just_from.hpp>
#include <unifex/when_any.hpp>
#include <unifex/with_query_value.hpp>

#include <optional>
#include <variant>

void kit_site(char*, size_t);

using namespace kit;
using namespace kit::ex;

namespace kit::ex {

// ================================================================== world
enum Kind {
  K_JUST, K_JUST_ERROR, K_JUST_DONE, K_LEAF,
  K_THEN, K_UPON_ERROR, K_UPON_DONE, K_LET_VALUE, K_LET_ERROR, K_LET_DONE,
  K_FINALLY, K_SEQUENCE, K_WHEN_ALL, K_STOP_WHEN, K_UNSTOPPABLE, K_VIA, K_ON,
  K_WITH_TAG, K_MAT_DEMAT, K_DONE_AS_OPT, K_LVWSS, K_ANY_SENDER, K_RETRY_WHEN, K_WHEN_ANY,
  K_DEFER, K_LVW, K_LVWST, K_ALLOCATE, K_INTO_VARIANT, K_VARIANT, K_WITH_ALLOC, K_REPEAT,
  K_WAR, K_SIR, K_JUST_FROM, K_REPEAT_JUST, K_RETRY_JUST,
  K_COUNT
};
const char* kKindName[] = {"just", "just_error", "just_done", "leaf", "then", "upon_error", "upon_done", "let_value", "let_error",
                           "let_done", "finally", "sequence", "when_all", "stop_when", "unstoppable", "via", "on", "with_tag",
                           "mat_demat", "done_as_opt", "lvwss", "any_sender_of", "retry_when", "when_any",
                           "defer", "let_value_with", "lvwst", "allocate", "into_variant", "variant_sender", "with_allocator", "repeat_until",
                           "when_all_range", "stop_if_requested+", "just_from", "repeat(then(just))", "retry(then(just))"};
inline bool is_when_all(int k) { return k == K_WHEN_ALL || k == K_WAR; }
inline bool interposes_stop(int k) { return k == K_WHEN_ALL || k == K_WAR || k == K_STOP_WHEN || k == K_WHEN_ANY; }

struct Node {
  int id = 0;
  int kind = K_JUST;
  int nchild = 0;
  int child[3] = {-1, -1, -1};
  int parent = -1;
  long k = 0;        // function / payload parameter
  int ctx = 0;       // scheduler for via/on
  bool throws = false;  // the node's callable throws when invoked
  node_base* impl = nullptr;
  int instances = 0;
  int leaf = -1;     // index into leaves for K_LEAF
  int throw_on_connect = -1;  // the connect of this instance number throws (-1: never)
  int connects = 0;
  int aux = 0;          // per-node counter for callables that must survive being copied by the library
};

struct LeafScript {
  int outcome = CH_VALUE;
  long payload = 0;
  int mode = 0;     // 0 inline, 1 deferred (completed by an actor)
  int actor = 0;
  int delay = 0;
  int on_stop = 0;  // 0 ignore stop, 1 complete with done from the stop callback, 2 complete with the scripted outcome from the stop callback
};

struct LeafRec {
  int node = -1, leaf = -1, inst = 0;
  LeafScript s;
  void* op = nullptr;
  bool (*complete_fn)(LeafRec*, int) noexcept = nullptr;
  bool started = false, armed = false, claimed = false, constructing = false, stop_during_construct = false;
  bool cb_constructed = false;
  uint64_t start_seq = 0, complete_begin = 0, complete_end = 0;
  int delivered = CH_NONE;
  bool stop_possible = false, stop_at_start = false, stop_at_completion = false, stop_cb_ran = false;
  int sched_seen = -9, alloc_seen = -9;
  long tag_seen = -9;
  int start_tid = -1, complete_tid = -1;
  std::thread::id complete_thread{};
};

constexpr int kMaxNodes = 24;
constexpr int kMaxLeaves = 8;
constexpr int kMaxActors = 2;

struct FnCall { int node; long arg; uint64_t seq; };

struct World {
  Node nodes[kMaxNodes];
  int nnodes = 0;
  int root = 0;
  LeafScript scripts[kMaxLeaves][2];
  int nleaves = 0;
  hvec<LeafRec*> leafrecs;
  hvec<TapRec*> taps;
  hvec<FnCall> calls;
  struct ConnThrow { int node; TapRec* parent; uint64_t seq; long code; };
  hvec<ConnThrow> conn_throws;
  struct Kept { void* p; void (*del)(void*); };
  hvec<Kept> kept;
  // root
  int root_channel = CH_NONE;
  long root_payload = 0;
  int root_completions = 0;
  uint64_t root_start_seq = 0, root_done_seq = 0, root_done_exit = 0;
  std::thread::id root_done_thread{};
  volatile int root_done = 0;
  bool free_in_completion = true;
  int root_token_kind = 0;  // 0 inplace, 1 sim_stop_token
  int root_mode = 0;        // 1: the expression is consumed by unifex::sync_wait() on the starting thread (param syncw=1)
  unifex::inplace_stop_source* root_inplace = nullptr;
  kit::sim_stop_source* root_sim = nullptr;
  int root_ctx = 0;
  long root_tag = 0;
  int root_alloc = 1;
  void (*free_root)(World*) = nullptr;
  void* root_op = nullptr;
  // external stop
  int ext_stop_mode = 0;  // 0 none, 1 before start, 2 after k yields, 3 when leaf L has started
  int ext_stop_yields = 0, ext_stop_leaf = 0;
  uint64_t ext_stop_begin = 0, ext_stop_end = 0;
  // contexts
  arena_box<unifex::single_thread_context> ctx[3];
  std::thread::id ctx_thread[3];
  int nctx = 0;
  // faults
  int val_copy_throw_at = 0;  // k-th Val copy throws (0 = never)
  int val_copies = 0;
  bool fault_injected = false;
  bool alloc_window_open = false;
  bool alloc_fault = false;  // param alloc=1: operator new may fail on the connecting thread during the top-level connect
  AllocStats astats[6];  // 0..2 arenas in use, 3 unknown/erased (-1), 4 the select_on_container_copy_construction arena (never legal)
  // tracked values
  struct VRec { const void* addr; long id; uint8_t st; };
  hvec<VRec> vals;
  int vals_alive = 0;
};

static World* g_world = nullptr;
World* world() { return g_world; }

unifex::single_thread_context* world_ctx(int id) { return g_world->ctx[id].p; }
std::thread::id world_ctx_thread(int id) { return g_world->ctx_thread[id]; }
AllocStats& alloc_stats(int id) { return g_world->astats[id == 4 ? 4 : (id & 3)]; }

// ---- tracked values
static World::VRec* val_find(const void* a) {
  auto& v = g_world->vals;
  for (size_t i = v.size(); i-- > 0;)
    if (v[i].addr == a && v[i].st != OBJ_DEAD) return &v[i];
  return nullptr;
}
void val_born(const void* self, long id, bool) {
  usim::np_scope np;
  if (!g_world) return;
  KIT_CHECK(val_find(self) == nullptr, "c02.construct-on-live", "Val constructed over a live Val at the same address (id %ld)", id);
  g_world->vals.push_back(World::VRec{self, id, OBJ_ALIVE});
  g_world->vals_alive++;
  if (tracing()) { char site[300]; ::kit_site(site, sizeof site); fprintf(stderr, "   val born %p id %ld  %s\n", self, id, site); }
}
void val_moved_from(const void* self) {
  usim::np_scope np;
  if (!g_world) return;
  if (auto* r = val_find(self)) r->st = OBJ_MOVED;
}
void val_dying(const void* self) {
  usim::np_scope np;
  if (!g_world) return;
  auto* r = val_find(self);
  KIT_CHECK(r != nullptr, "c02.double-destroy", "Val destroyed that is not alive (double destruction or never constructed)");
  r->st = OBJ_DEAD;
  g_world->vals_alive--;
  if (tracing()) fprintf(stderr, "   val dead %p id %ld\n", self, r->id);
}
void val_used(const void* self, const char* how) {
  usim::np_scope np;
  if (!g_world) return;
  auto* r = val_find(self);
  KIT_CHECK(r != nullptr, "c02.use-dead", "Val used (%s) while not alive", how);
  // values arrive unmodified: nothing reads, copies or forwards an object that has already been moved from
  if (r && r->st == OBJ_MOVED && (!strcmp(how, "read") || !strcmp(how, "copy-from") || !strcmp(how, "move-from")))
    KIT_CHECK(false, "c05.moved-from-value", "a value that had already been moved from was used again (%s): what is delivered is not the value the sender was given", how);
  if (r && r->st == OBJ_MOVED && (!strcmp(how, "assign-to") || !strcmp(how, "move-assign-to"))) r->st = OBJ_ALIVE;  // assigned to: holds a value again
}
bool val_copy_should_throw() {
  usim::np_scope np;
  if (!g_world || !g_world->val_copy_throw_at) return false;
  if (tl_noexcept_connect_depth > 0) return false;  // inside a connect() the library declares noexcept nothing is injected (see expr.hpp)
  if (++g_world->val_copies == g_world->val_copy_throw_at) { g_world->fault_injected = true; usim_probe("Val copy threw"); return true; }
  return false;
}

void keep_until_end_of_run(void* p, void (*del)(void*)) { g_world->kept.push_back(World::Kept{p, del}); }

void noexcept_connect_enter() { usim_alloc_fault_window(0); }
void noexcept_connect_leave() { if (kit::ex::tl_noexcept_connect_depth == 0 && g_world && g_world->alloc_window_open) usim_alloc_fault_window(1); }

void maybe_throw_on_connect(int node) {
  usim::np_scope np;
  Node& n = g_world->nodes[node];
  int inst = n.connects++;
  if (n.throw_on_connect != inst) return;
  if (kit::ex::tl_noexcept_connect_depth > 0) {
    usim_report("c02.noexcept-connect", "connect() of node %d (%s) throws inside the connect() of let_value_with_stop_source, which is declared noexcept although its operation "
                "constructor connects the successor: the exception cannot propagate out of connect() (std::terminate)", node, kKindName[n.kind]);
  }
  // parent instance under which this connect happens
  TapRec* parent = nullptr;
  if (n.parent >= 0)
    for (auto* p : g_world->taps)
      if (p->node == n.parent && (!parent || p->connect_seq > parent->connect_seq)) parent = p;
  g_world->conn_throws.push_back(World::ConnThrow{node, parent, seq(), -5000 - node});
  g_world->fault_injected = true;
  usim_probe("connect threw");
  throw injected_throw(-5000 - node);
}

// ---- taps
void tap_aborted(TapRec* t, std::exception_ptr e) {
  long code = -9999;
  try { std::rethrow_exception(e); } catch (const injected_throw& it) { code = it.code; } catch (const TestError& te) { code = te.id; } catch (const std::bad_alloc&) { code = -8000; } catch (...) {}
  usim::np_scope np;
  t->aborted = true;
  t->destroyed = true;
  t->destroy_seq = seq();
  // for the parent's model this is "connecting child t->node threw `code`"
  g_world->conn_throws.push_back(World::ConnThrow{t->node, t->parent, seq(), code});
}

TapRec* tap_new(int node) {
  usim::np_scope np;
  TapRec* t = new TapRec();
  t->node = node;
  t->inst = g_world->nodes[node].instances++;
  t->connect_seq = seq();
  int pn = g_world->nodes[node].parent;
  if (pn >= 0)
    for (auto* p : g_world->taps)
      if (p->node == pn && (!t->parent || p->connect_seq > t->parent->connect_seq)) t->parent = p;
  g_world->taps.push_back(t);
  return t;
}
void tap_signal(TapRec* t, int ch, long payload) {
  usim::np_scope np;
  KIT_CHECK(t->started, "c01.signal-before-start", "node %d (%s) delivered %s before its start() was called", t->node, kKindName[g_world->nodes[t->node].kind], ch_name(ch));
  KIT_CHECK(!t->completed, "c01.double-signal", "node %d (%s) delivered a second completion signal (%s after %s)", t->node, kKindName[g_world->nodes[t->node].kind], ch_name(ch), ch_name(t->channel));
  KIT_CHECK(!t->destroyed, "c01.double-signal", "node %d delivered a signal after its operation state was destroyed", t->node);
  t->completed = true;
  t->channel = ch;
  t->payload = payload;
  t->sig_enter = seq();
  t->sig_tid = usim_here();
  t->sig_thread = std::this_thread::get_id();
  usim_trace(0xA0000 + t->node * 16 + ch);
  KIT_TRACE("tap node %d inst %d -> %s %ld", t->node, t->inst, ch_name(ch), payload);
}
void tap_signal_exit(TapRec* t) {
  usim::np_scope np;
  t->sig_exit = seq();
}

// ================================================================== leaves
long error_code(const std::exception_ptr& e) {
  try { std::rethrow_exception(e); }
  catch (const TestError& te) { return te.id; }
  catch (const injected_throw& it) { return it.code; }
  catch (const std::bad_alloc&) { return -8000; }
  catch (...) { return -9999; }
}

template <class Tok>
struct root_rcv;
#if UNIFEX_ENABLE_CONTINUATION_VISITATIONS
// C20: async_trace from a leaf's receiver reports the chain of receivers up to the root receiver. Every harness erasure
// point (bridge) on the path shows up once: leaf, its ancestors, the root node. any_sender_of<> hides its continuation
// (it forwards only the CPOs it was declared with), so paths through it are not judged.
template <class R>
void check_async_trace(const R& r, LeafRec* rc) {
  auto trace = unifex::async_trace(r);
  usim::np_scope np;
  World* w = g_world;
  int depth = 0;
  bool erased = false;
  for (int x = w->nodes[rc->node].parent; x >= 0; x = w->nodes[x].parent) { ++depth; if (w->nodes[x].kind == K_ANY_SENDER) erased = true; }
  if (erased) return;
  int bridges = 0;
  bool root = false;
  for (auto& e : trace) {
    if (e.continuation.type() == unifex::type_id<kit::ex::bridge>()) ++bridges;
    if (e.continuation.type() == unifex::type_id<root_rcv<unifex::inplace_stop_token>>() || e.continuation.type() == unifex::type_id<root_rcv<kit::sim_stop_token>>() ||
        e.continuation.type() == unifex::type_id<unifex::_sync_wait::receiver_t<Val>>()) root = true;
  }
  KIT_CHECK(root, "c20.async-trace", "async_trace from leaf %d (%zu entries, %d harness erasure points seen, %d expected) never reaches the root receiver: some receiver on the path does not report its continuation",
            rc->leaf, trace.size(), bridges, depth + 1);
  if (root) KIT_CHECK(bridges == depth + 1, "c20.async-trace", "async_trace from leaf %d passes %d harness erasure points, the path to the root has %d", rc->leaf, bridges, depth + 1);
  usim_probe("async_trace chain checked");
}
#endif

struct leaf_sender {
  int node;
  template <template <class...> class Variant, template <class...> class Tuple>
  using value_types = Variant<Tuple<Val>>;
  template <template <class...> class Variant>
  using error_types = Variant<std::exception_ptr>;
  static constexpr bool sends_done = true;

  template <class R>
  struct op {
    struct cb {
      op* self;
      void operator()() noexcept { self->on_stop(); }
    };
    using cb_t = typename unifex::stop_token_type_t<R&>::template callback_type<cb>;
    R r;
    LeafRec* rec;
    unifex::manual_lifetime<cb_t> callback;

    op(int node, R&& b) : r((R &&) b) {
      usim::np_scope np;
      World* w = g_world;
      rec = new LeafRec();
      rec->node = node;
      rec->leaf = w->nodes[node].leaf;
      rec->inst = (int)0;
      for (auto* o : w->leafrecs) if (o->node == node) rec->inst++;
      rec->s = w->scripts[rec->leaf][rec->inst % 2];
      rec->op = this;
      rec->complete_fn = &op::complete;
      w->leafrecs.push_back(rec);
    }
    op(op&&) = delete;
    ~op() {
      usim::np_scope np;
      KIT_CHECK(!(rec->started && !rec->claimed), "c02.child-destroyed-running", "leaf %d destroyed while started and not completed", rec->leaf);
      rec->op = nullptr;
    }

    void start() noexcept {
      LeafRec* rc = rec;
      auto tok = unifex::get_stop_token(r);
      bool sp = tok.stop_possible(), sr = tok.stop_requested();
      int sch = unifex::get_scheduler(r).id;
      int al = unifex::get_allocator(r).id;
      long tg = get_tag(r);
#if UNIFEX_ENABLE_CONTINUATION_VISITATIONS
      check_async_trace(r, rc);
#endif
      {
        usim::np_scope np;
        KIT_CHECK(!rc->started, "c01.leaf-restarted", "leaf %d started twice", rc->leaf);
        rc->started = true;
        rc->start_seq = seq();
        rc->start_tid = usim_here();
        rc->stop_possible = sp;
        rc->stop_at_start = sr;
        rc->sched_seen = sch;
        rc->alloc_seen = al;
        rc->tag_seen = tg;
        KIT_TRACE("leaf %d inst %d started (mode %d, stop_at_start %d)", rc->leaf, rc->inst, rc->s.mode, (int)sr);
      }
      if (rc->s.mode == 0) { complete(rc, 0); return; }
      if (sr && rc->s.on_stop == 1) { complete(rc, 2); return; }
      if (sr && rc->s.on_stop == 2) { complete(rc, 3); return; }
      { usim::np_scope np; rc->constructing = true; }
      callback.construct(tok, cb{this});
      bool late_stop;
      { usim::np_scope np; rc->constructing = false; rc->cb_constructed = true; late_stop = rc->stop_during_construct; }
      if (late_stop && rc->s.on_stop == 1) { complete(rc, 2); return; }
      if (late_stop && rc->s.on_stop == 2) { complete(rc, 3); return; }
      { usim::np_scope np; rc->armed = true; }  // from here on an actor may complete (and destroy) us
    }

    void on_stop() noexcept {
      LeafRec* rc = rec;
      bool during;
      { usim::np_scope np; rc->stop_cb_ran = true; during = rc->constructing; if (during) rc->stop_during_construct = true; }
      if (during) return;  // handled by start() once the constructor has returned
      if (rc->s.on_stop == 1) complete(rc, 2);
      else if (rc->s.on_stop == 2) complete(rc, 3);
    }

    // why: 0 inline in start, 1 actor, 2 stop reaction (done), 3 stop reaction (scripted outcome)
    static bool complete(LeafRec* rc, int why) noexcept {
      op* self;
      {
        usim::np_scope np;
        if (rc->claimed) return false;
        if (why == 1 && !rc->armed) return false;
        rc->claimed = true;
        self = (op*)rc->op;
        rc->complete_begin = seq();
        rc->complete_tid = usim_here();
        rc->complete_thread = std::this_thread::get_id();
      }
      bool stopped = unifex::get_stop_token(self->r).stop_requested();
      bool had_cb;
      { usim::np_scope np; rc->stop_at_completion = stopped; had_cb = rc->cb_constructed; }
      if (had_cb) self->callback.destruct();  // waits for a concurrently running callback
      int ch = why == 2 ? CH_DONE : rc->s.outcome;
      long payload = rc->s.payload;
      { usim::np_scope np; rc->delivered = ch; KIT_TRACE("leaf %d inst %d completes with %s (why %d)", rc->leaf, rc->inst, ch_name(ch), why); }
      // the op may be destroyed by the completion: nothing of *self is touched afterwards
      if (ch == CH_VALUE) unifex::set_value(std::move(self->r), Val{payload});
      else if (ch == CH_ERROR) unifex::set_error(std::move(self->r), std::make_exception_ptr(TestError{payload}));
      else unifex::set_done(std::move(self->r));
      { usim::np_scope np; rc->complete_end = seq(); }
      return true;
    }
  };
  template <class R>
  op<unifex::remove_cvref_t<R>> connect(R&& r) const { return op<unifex::remove_cvref_t<R>>{node, unifex::remove_cvref_t<R>((R &&) r)}; }
};

// ================================================================== function objects
void note_call(int node, long arg) {
  usim::np_scope np;
  g_world->calls.push_back(FnCall{node, arg, seq()});
}
struct FnVal {  // Val -> Val
  int node; long k; bool throws;
  Val operator()(Val v) const {
    long a = v.get();
    note_call(node, a);
    if (throws) { { usim::np_scope np; g_world->fault_injected = true; } throw injected_throw(-6000 - node); }
    return Val{mix(k, a)};
  }
};
struct FnErr {  // exception_ptr -> Val
  int node; long k; bool throws;
  Val operator()(std::exception_ptr e) const {
    long a = error_code(e);
    note_call(node, a);
    if (throws) { { usim::np_scope np; g_world->fault_injected = true; } throw injected_throw(-6000 - node); }
    return Val{mix(k, a)};
  }
};
struct FnDone {  // () -> Val
  int node; long k; bool throws;
  Val operator()() const {
    note_call(node, 0);
    if (throws) { { usim::np_scope np; g_world->fault_injected = true; } throw injected_throw(-6000 - node); }
    return Val{mix(k, 0)};
  }
};
struct IdVal {
  Val operator()(Val v) const { return Val{v.get()}; }
};
struct Discard {
  void operator()(Val v) const noexcept { (void)v.get(); }
};

template <class F>
node_base* make_node(F f, bool noexcept_connect = false) {
  usim::np_scope np;
  return new expr_node<F>(std::move(f), noexcept_connect);
}

long combine(long k, const long* ids, int n) {
  long acc = k;
  for (int i = 0; i < n; ++i) acc = mix(acc, ids[i]);
  return acc;
}

// Build the library expression for one node (children are already built).
void build_node(World* w, int id) {
  Node& n = w->nodes[id];
  for (int c = 0; c < n.nchild; ++c) build_node(w, n.child[c]);
  any_snd a{n.nchild > 0 ? w->nodes[n.child[0]].impl : nullptr};
  any_snd b{n.nchild > 1 ? w->nodes[n.child[1]].impl : nullptr};
  any_snd c{n.nchild > 2 ? w->nodes[n.child[2]].impl : nullptr};
  long k = n.k;
  int nid = id;
  bool th = n.throws;
  switch (n.kind) {
    case K_JUST: n.impl = make_node([k] { return unifex::just(Val{k}); }); break;
    case K_JUST_ERROR: n.impl = make_node([k] { return unifex::just_error(std::make_exception_ptr(TestError{k})) | unifex::then([]() -> Val { return Val{0}; }); }); break;
    case K_JUST_DONE: n.impl = make_node([] { return unifex::just_done() | unifex::then([]() -> Val { return Val{0}; }); }); break;
    case K_LEAF: n.impl = make_node([nid] { return leaf_sender{nid}; }); break;
    case K_THEN: n.impl = make_node([a, nid, k, th] { return unifex::then(any_snd(a), FnVal{nid, k, th}); }); break;
    case K_UPON_ERROR: n.impl = make_node([a, nid, k, th] { return unifex::upon_error(any_snd(a), FnErr{nid, k, th}); }); break;
    case K_UPON_DONE: n.impl = make_node([a, nid, k, th] { return unifex::upon_done(any_snd(a), FnDone{nid, k, th}); }); break;
    case K_LET_VALUE:
      n.impl = make_node([a, b, nid, th] {
        return unifex::let_value(any_snd(a), [b, nid, th](Val& v) {
          note_call(nid, v.get());
          if (th) { { usim::np_scope np; g_world->fault_injected = true; } throw injected_throw(-6000 - nid); }
          return any_snd(b);
        });
      });
      break;
    case K_LET_ERROR:
      n.impl = make_node([a, b, nid, th] {
        return unifex::let_error(any_snd(a), [b, nid, th](auto&& e) {
          note_call(nid, error_code(e));
          if (th) { { usim::np_scope np; g_world->fault_injected = true; } throw injected_throw(-6000 - nid); }
          return any_snd(b);
        });
      });
      break;
    case K_LET_DONE:
      n.impl = make_node([a, b, nid] {
        return unifex::let_done(any_snd(a), [b, nid]() noexcept {
          note_call(nid, 0);
          return any_snd(b);
        });
      });
      break;
    case K_FINALLY: n.impl = make_node([a, b] { return unifex::finally(any_snd(a), unifex::then(any_snd(b), Discard{})); }); break;
    case K_SEQUENCE: n.impl = make_node([a, b] { return unifex::sequence(unifex::then(any_snd(a), Discard{}), any_snd(b)); }); break;
    case K_WHEN_ALL:
      if (n.nchild == 2)
        n.impl = make_node([a, b, k] {
          return unifex::then(unifex::when_all(any_snd(a), any_snd(b)), [k](auto&& va, auto&& vb) {
            long ids[2] = {std::get<0>(std::get<0>(va)).get(), std::get<0>(std::get<0>(vb)).get()};
            return Val{combine(k, ids, 2)};
          });
        });
      else
        n.impl = make_node([a, b, c, k] {
          return unifex::then(unifex::when_all(any_snd(a), any_snd(b), any_snd(c)), [k](auto&& va, auto&& vb, auto&& vc) {
            long ids[3] = {std::get<0>(std::get<0>(va)).get(), std::get<0>(std::get<0>(vb)).get(), std::get<0>(std::get<0>(vc)).get()};
            return Val{combine(k, ids, 3)};
          });
        });
      break;
    case K_STOP_WHEN: n.impl = make_node([a, b] { return unifex::stop_when(any_snd(a), unifex::then(any_snd(b), Discard{})); }); break;
    case K_DEFER: n.impl = make_node([a] { return unifex::defer([a]() noexcept { return any_snd(a); }); }); break;
    case K_LVW: n.impl = make_node([a, k] { return unifex::let_value_with([k]() noexcept { return k; }, [a](long&) noexcept { return any_snd(a); }); }); break;
    case K_LVWST: n.impl = make_node([a] { return unifex::let_value_with_stop_token([a](auto) noexcept { return any_snd(a); }); }); break;
    case K_ALLOCATE: n.impl = make_node([a] { return unifex::allocate(any_snd(a)); }); break;
    case K_INTO_VARIANT:
      n.impl = make_node([a] {
        return unifex::then(unifex::into_variant(any_snd(a)), [](auto&& var) { return Val{std::get<0>(std::get<0>(std::move(var))).get()}; });
      });
      break;
    case K_VARIANT:
      n.impl = make_node([a, k] {
        using VS = unifex::variant_sender<any_snd, decltype(unifex::then(any_snd(a), IdVal{}))>;
        if (k & 1) return VS{any_snd(a)};
        return VS{unifex::then(any_snd(a), IdVal{})};
      });
      break;
    case K_REPEAT: {
      // repeat the (void-valued) source until the predicate, asked after every value completion, says stop: 1 + k%3 rounds
      int rounds = 1 + (int)(k % 3);
      bool th = n.throws;
      n.impl = make_node([a, k, nid, rounds, th] {
        return unifex::then(unifex::repeat_effect_until(unifex::then(any_snd(a), Discard{}),
                                                        [nid, rounds, th, count = 0]() mutable {
                                                          note_call(nid, count);
                                                          if (th && count == 0) { { usim::np_scope np; g_world->fault_injected = true; } throw injected_throw(-6000 - nid); }
                                                          return ++count >= rounds;
                                                        }),
                            [k] { return Val{mix(k, 77)}; });
      });
      break;
    }
    case K_WAR: {
      // when_all over a run-time sized vector of (identically typed) senders
      int nc = n.nchild;
      n.impl = make_node([a, b, c, nc, k] {
        std::vector<any_snd> v;
        v.reserve(3);
        v.push_back(any_snd(a));
        if (nc > 1) v.push_back(any_snd(b));
        if (nc > 2) v.push_back(any_snd(c));
        return unifex::then(unifex::when_all_range(std::move(v)), [k](std::vector<Val> vals) {
          long ids[3] = {0, 0, 0};
          int m = 0;
          for (auto& x : vals) if (m < 3) ids[m++] = x.get();
          return Val{combine(k, ids, m)};
        });
      });
      break;
    }
#ifdef KIT_HAVE_SIR
    case K_SIR: n.impl = make_node([a] { return unifex::sequence(unifex::stop_if_requested(), any_snd(a)); }); break;
#else
    case K_SIR: n.impl = make_node([a] { return unifex::sequence(unifex::just(), any_snd(a)); }); break;
#endif
    case K_JUST_FROM:
      n.impl = make_node([nid, k, th] {
        return unifex::just_from([nid, k, th] {
          note_call(nid, k);
          if (th) { { usim::np_scope np; g_world->fault_injected = true; } throw injected_throw(-6000 - nid); }
          return Val{k};
        });
      });
      break;
    case K_REPEAT_JUST: {
      // typed all the way down: repeat_effect_until re-connects its stored source - an lvalue just(v) - for every round
      int rounds = 2 + (int)(k % 2);
      n.impl = make_node([nid, k, rounds] {
        return unifex::then(unifex::repeat_effect_until(unifex::then(unifex::just(Val{k}), [nid](Val v) noexcept { note_call(nid, v.get()); }),
                                                        [rounds, count = 0]() mutable noexcept { return ++count >= rounds; }),
                            [k] { return Val{mix(k, 78)}; });
      });
      break;
    }
    case K_RETRY_JUST:
      // retry_when re-connects its stored source (an lvalue then(just(v), f)) after each of the first two attempts failed
      n.impl = make_node([nid, k] {
        return unifex::retry_when(unifex::then(unifex::just(Val{k}),
                                               [nid, attempt = 0](Val v) mutable -> Val {
                                                 note_call(nid, v.get());
                                                 (void)attempt;
                                                 int nth;
                                                 { usim::np_scope np; nth = g_world->nodes[nid].aux++; }
                                                 if (nth % 3 < 2) throw injected_throw(-6000 - nid);
                                                 return v;
                                               }),
                                  [](std::exception_ptr) noexcept { return unifex::just(); });
      });
      break;
    case K_WITH_ALLOC: n.impl = make_node([a, k] { return unifex::with_allocator(any_snd(a), sim_allocator<std::byte>{2}); }); break;
    case K_WHEN_ANY:
      if (n.nchild == 2) n.impl = make_node([a, b] { return unifex::when_any(any_snd(a), any_snd(b)); });
      else n.impl = make_node([a, b, c] { return unifex::when_any(any_snd(a), any_snd(b), any_snd(c)); });
      break;
    case K_UNSTOPPABLE: n.impl = make_node([a] { return unifex::unstoppable(any_snd(a)); }); break;
    case K_VIA: { int cx = n.ctx; n.impl = make_node([a, cx] { return unifex::via(any_snd(a), sim_sched{cx}); }); break; }
    case K_ON: { int cx = n.ctx; n.impl = make_node([a, cx] { return unifex::on(sim_sched{cx}, any_snd(a)); }); break; }
    case K_WITH_TAG: n.impl = make_node([a, k] { return unifex::with_query_value(any_snd(a), get_tag, k); }); break;
    case K_MAT_DEMAT: n.impl = make_node([a] { return unifex::dematerialize(unifex::materialize(any_snd(a))); }); break;
    case K_DONE_AS_OPT:
      n.impl = make_node([a, k] {
        return unifex::then(unifex::done_as_optional(any_snd(a)), [k](std::optional<Val> o) { return o ? Val{o->get()} : Val{mix(k, -1)}; });
      });
      break;
    case K_RETRY_WHEN:
      n.impl = make_node([a, b, c, nid] {
        return unifex::retry_when(any_snd(a), [b, c, nid, calls = 0](std::exception_ptr e) mutable {
          note_call(nid, error_code(e));
          // bounded: after three retries the trigger gives up with done
          return unifex::then(any_snd(++calls <= 3 ? b : c), Discard{});
        });
      });
      break;
    case K_ANY_SENDER: n.impl = make_node([a] { return unifex::any_sender_of<Val>(any_snd(a)); }); break;
    case K_LVWSS:
      // (noexcept_connect: the library declares this connect() noexcept although it connects the successor inside, see DESIGN.md 0.3)
      n.impl = make_node([a] { return unifex::let_value_with_stop_source([a](unifex::inplace_stop_source&) noexcept { return any_snd(a); }); }, true);
      break;
    default: break;
  }
  n.impl->id = id;
}

// ================================================================== plan generation
int add_node(World* w, int kind, int parent) {
  int id = w->nnodes++;
  Node& n = w->nodes[id];
  n = Node{};
  n.id = id;
  n.kind = kind;
  n.parent = parent;
  return id;
}

int gen(World* w, int depth, int parent, int* budget) {
  bool leaf_only = depth <= 0 || *budget <= 1 || w->nnodes >= kMaxNodes - 4;
  int kind;
  if (leaf_only) {
    int r = draw(10);
    kind = r < 3 ? K_JUST : r < 4 ? K_JUST_ERROR : r < 5 ? K_JUST_DONE : K_LEAF;
    if (kind == K_LEAF && w->nleaves >= kMaxLeaves) kind = K_JUST;
  } else {
    static const int kinds[] = {K_LEAF, K_LEAF, K_JUST, K_THEN, K_THEN, K_UPON_ERROR, K_UPON_DONE, K_LET_VALUE, K_LET_ERROR, K_LET_DONE,
                                K_FINALLY, K_SEQUENCE, K_WHEN_ALL, K_WHEN_ALL, K_STOP_WHEN, K_UNSTOPPABLE, K_VIA, K_ON, K_WITH_TAG,
                                K_MAT_DEMAT, K_DONE_AS_OPT, K_LVWSS, K_JUST_ERROR, K_JUST_DONE, K_RETRY_WHEN};
    kind = kinds[draw((int)(sizeof kinds / sizeof kinds[0]))];
    {
      static int wrap = -1;
      if (wrap < 0) wrap = (int)usim_param_int("wrap", 0);
      int r = draw(wrap ? 4 : 24);
      if (r == 0) kind = K_ANY_SENDER;  // type-erased wrapper as an identity node (C18): often with wrap=1, occasionally otherwise
      static int wany = -1;
      if (wany < 0) wany = (int)usim_param_int("wany", 0);
      if (wany && draw(5) == 0) kind = K_WHEN_ANY;  // (only with wany=1: keeps the tapes of older replays meaningful)
      static int more = -1;
      if (more < 0) more = (int)usim_param_int("more", 0);
      if (more && draw(3) == 0) {
        static const int extra[] = {K_DEFER, K_LVW, K_LVWST, K_ALLOCATE, K_INTO_VARIANT, K_VARIANT, K_WITH_ALLOC, K_REPEAT, K_REPEAT};
        kind = extra[draw(9)];
      }
      if (more >= 2 && draw(4) == 0) {  // (more=2 only: the tapes of more=1 replays keep their meaning)
        static const int extra2[] = {K_WAR, K_WAR, K_WAR, K_SIR, K_JUST_FROM, K_REPEAT_JUST, K_RETRY_JUST};
        kind = extra2[draw(7)];
      }
    }
    if (kind == K_LEAF && w->nleaves >= kMaxLeaves) kind = K_JUST;
  }
  int id = add_node(w, kind, parent);
  --*budget;
  Node& n = w->nodes[id];
  n.k = 10 + id * 7 + draw(5);
  auto kid = [&](int slot) { int c = gen(w, depth - 1, id, budget); w->nodes[id].child[slot] = c; w->nodes[id].nchild = slot + 1; };
  switch (kind) {
    case K_JUST: case K_JUST_ERROR: case K_JUST_DONE: break;
    case K_LEAF: {
      n.leaf = w->nleaves++;
      for (int v = 0; v < 2; ++v) {
        LeafScript& s = w->scripts[n.leaf][v];
        int o = draw(6);
        s.outcome = o < 4 ? CH_VALUE : o < 5 ? CH_ERROR : CH_DONE;
        s.payload = 100 + n.leaf * 10 + v;
        s.mode = draw(3) == 0 ? 0 : 1;
        s.actor = draw(kMaxActors);
        s.delay = draw_small(10);
        { int os = draw(6); s.on_stop = os < 2 ? 0 : os < 5 ? 1 : 2; }
      }
      break;
    }
    case K_THEN: case K_UPON_ERROR: case K_UPON_DONE:
      n.throws = draw(8) == 0;
      kid(0);
      break;
    case K_LET_VALUE: case K_LET_ERROR:
      n.throws = draw(10) == 0;
      kid(0); kid(1);
      break;
    case K_REPEAT:
      w->nodes[id].throws = draw(10) == 0;
      kid(0);
      break;
    case K_LET_DONE: case K_FINALLY: case K_SEQUENCE: case K_STOP_WHEN:
      kid(0); kid(1);
      break;
    case K_RETRY_WHEN: {
      kid(0); kid(1);
      // hidden third child: the give-up trigger
      int gu = add_node(w, K_JUST_DONE, id);
      w->nodes[id].child[2] = gu;
      w->nodes[id].nchild = 3;
      break;
    }
    case K_WHEN_ALL: case K_WHEN_ANY:
      kid(0); kid(1);
      if (draw(3) == 0 && *budget > 1) kid(2);
      break;
    case K_WAR:
      kid(0);
      if (draw(4) != 0 && *budget > 1) kid(1);
      if (w->nodes[id].nchild == 2 && draw(3) == 0 && *budget > 1) kid(2);
      break;
    case K_JUST_FROM:
      w->nodes[id].throws = draw(6) == 0;
      break;
    case K_REPEAT_JUST: case K_RETRY_JUST: break;
    case K_VIA: case K_ON:
      w->nodes[id].ctx = draw(3);
      kid(0);
      break;
    default:
      kid(0);
      break;
  }
  return id;
}

int describe(World* w, int id, char* buf, int n) {
  Node& nd = w->nodes[id];
  int o = snprintf(buf, n, "%s", kKindName[nd.kind]);
  if (nd.kind == K_LEAF) {
    LeafScript& s = w->scripts[nd.leaf][0];
    o += snprintf(buf + o, n - o, "#%d[%s%s%s a%d]", nd.leaf, ch_name(s.outcome), s.mode ? ",deferred" : ",inline", s.on_stop == 1 ? ",stoppable" : s.on_stop == 2 ? ",stop->outcome" : "", s.actor);
  }
  if (nd.kind == K_VIA || nd.kind == K_ON) o += snprintf(buf + o, n - o, "@%d", nd.ctx);
  if (nd.throws) o += snprintf(buf + o, n - o, "!");
  if (nd.nchild) {
    o += snprintf(buf + o, n - o, "(");
    for (int c = 0; c < nd.nchild && o < n - 8; ++c) {
      if (c) o += snprintf(buf + o, n - o, ",");
      o += describe(w, nd.child[c], buf + o, n - o);
    }
    o += snprintf(buf + o, n - o, ")");
  }
  return o;
}

// ================================================================== root receiver
template <class Tok>
struct root_rcv {
  World* w;
  void complete(int ch, long payload) noexcept {
    World* ww = w;
    {
      usim::np_scope np;
      KIT_CHECK(ww->root_completions == 0, "c01.double-signal", "root receiver completed twice (%s after %s)", ch_name(ch), ch_name(ww->root_channel));
      KIT_CHECK(ww->root_start_seq != 0, "c01.signal-before-start", "root receiver completed before start()");
      ww->root_completions++;
      ww->root_channel = ch;
      ww->root_payload = payload;
      ww->root_done_seq = seq();
      ww->root_done_thread = std::this_thread::get_id();
      if (ww->root_sim) {
        KIT_CHECK(ww->root_sim->live_registrations() == 0, "c04.live-registration-at-completion",
                  "%d stop callback(s) still registered on the receiver's stop token when the receiver was completed", ww->root_sim->live_registrations());
        ww->root_sim->declare_dead("the root receiver was completed");
      }
      KIT_TRACE("ROOT completed with %s %ld", ch_name(ch), payload);
    }
    if (ww->free_in_completion) ww->free_root(ww);
    { usim::np_scope np; ww->root_done_exit = seq(); }
    ww->root_done = 1;
  }
  void set_value(Val v) && noexcept { complete(CH_VALUE, v.get()); }
  void set_error(std::exception_ptr e) && noexcept { complete(CH_ERROR, error_code(e)); }
  void set_done() && noexcept { complete(CH_DONE, 0); }
  friend Tok tag_invoke(unifex::tag_t<unifex::get_stop_token>, const root_rcv& r) noexcept {
    if constexpr (std::is_same_v<Tok, unifex::inplace_stop_token>) return r.w->root_inplace->get_token();
    else return r.w->root_sim->get_token();
  }
  friend sim_sched tag_invoke(unifex::tag_t<unifex::get_scheduler>, const root_rcv& r) noexcept { return sim_sched{r.w->root_ctx}; }
  friend sim_allocator<std::byte> tag_invoke(unifex::tag_t<unifex::get_allocator>, const root_rcv& r) noexcept { return sim_allocator<std::byte>{r.w->root_alloc}; }
  friend long tag_invoke(get_tag_fn, const root_rcv& r) noexcept { return r.w->root_tag; }
};

}  // namespace kit::ex

namespace {

// ================================================================== model (local, per tap instance)
struct Outcome { int ch; long payload; };

// taps of `node` whose parent instance is the k-th instance of the parent, in connect order
int child_taps(World* w, int node, TapRec* parent, TapRec** out, int max) {
  int n = 0;
  for (auto* t : w->taps)
    if (t->node == node && t->parent == parent && !t->aborted && n < max) out[n++] = t;
  return n;
}

// Could a stop request have been visible on the stop token of t's receiver before t delivered?
// (external request begun, or an enclosing when_all / stop_when had already decided to cancel)
bool stop_possibly_visible(World* w, TapRec* t) {
  if (w->ext_stop_begin && w->ext_stop_begin < t->sig_enter) return true;
  for (TapRec* c = t; c->parent; c = c->parent) {
    TapRec* p = c->parent;
    Node& pn = w->nodes[p->node];
    if (!interposes_stop(pn.kind)) continue;
    for (auto* s : w->taps) {
      if (s->parent != p || s == c || !s->completed) continue;
      if (s->sig_enter < t->sig_enter && (!is_when_all(pn.kind) || s->channel != CH_VALUE)) return true;
    }
  }
  return false;
}

// a's completion decisively precedes b's: it had fully returned before b's began, or b's whole
// completion happened on the same thread nested inside a's (b was caused by a: no concurrency)
// did the connect of `child` (as a late-connected part of parent instance t) throw?
bool conn_threw(World* w, TapRec* t, int child) {
  for (auto& c : w->conn_throws)
    if (c.node == child && c.parent == t) return true;
  return false;
}
long conn_code(World* w, TapRec* t, int child) {
  for (auto& c : w->conn_throws)
    if (c.node == child && c.parent == t) return c.code;
  return -5000 - child;
}

bool strictly_before(TapRec* a, TapRec* b) {
  if (a->sig_exit && a->sig_exit < b->sig_enter) return true;
  if (a->sig_tid == b->sig_tid && a->sig_enter < b->sig_enter && b->sig_exit && a->sig_exit && b->sig_exit < a->sig_exit) return true;
  return false;
}

void check_tap(World* w, TapRec* t, bool) {
  Node& n = w->nodes[t->node];
  if (!t->completed) return;
  bool relaxed = stop_possibly_visible(w, t);
  TapRec* c0[6]; TapRec* c1[6]; TapRec* c2[6];
  int n0 = n.nchild > 0 ? child_taps(w, n.child[0], t, c0, 6) : 0;
  int n1 = n.nchild > 1 ? child_taps(w, n.child[1], t, c1, 6) : 0;
  int n2 = n.nchild > 2 ? child_taps(w, n.child[2], t, c2, 6) : 0;
  auto fail = [&](const char* why) {
    usim_report("c05.outcome", "node %d (%s) delivered %s %ld: %s", t->node, kKindName[n.kind], ch_name(t->channel), t->payload, why);
  };
  auto expect = [&](int ch, long payload, const char* why) {
    if (t->channel != ch || (ch != CH_DONE && t->payload != payload)) {
      char b[200];
      snprintf(b, sizeof b, "expected %s %ld (%s)", ch_name(ch), payload, why);
      fail(b);
    }
  };
  auto same_as = [&](TapRec* c, const char* why) { expect(c->channel, c->payload, why); };
  auto child_done = [&](TapRec** v, int cnt) -> TapRec* { return cnt && v[0]->completed ? v[0] : nullptr; };
  long thrown = -6000 - t->node;
  switch (n.kind) {
    case K_JUST: expect(CH_VALUE, n.k, "just(v)"); break;
    case K_JUST_ERROR: expect(CH_ERROR, n.k, "just_error(e)"); break;
    case K_JUST_DONE: expect(CH_DONE, 0, "just_done()"); break;
    case K_LEAF: {
      LeafRec* lr = nullptr;
      for (auto* r : w->leafrecs) if (r->node == t->node && r->inst == t->inst) lr = r;
      if (!lr) { fail("no leaf record"); break; }
      expect(lr->delivered, lr->s.payload, "what the leaf delivered");
      break;
    }
    case K_THEN: case K_UPON_ERROR: case K_UPON_DONE: {
      TapRec* c = child_done(c0, n0);
      if (!c) { fail("completed although its child has not"); break; }
      int on = n.kind == K_THEN ? CH_VALUE : n.kind == K_UPON_ERROR ? CH_ERROR : CH_DONE;
      if (c->channel == on) {
        if (n.throws) expect(CH_ERROR, thrown, "callable threw: set_error(current_exception)");
        else expect(CH_VALUE, mix(n.k, on == CH_DONE ? 0 : c->payload), "f(child result)");
      } else same_as(c, "other channels forwarded unchanged");
      break;
    }
    case K_LET_VALUE: case K_LET_ERROR: case K_LET_DONE: {
      TapRec* c = child_done(c0, n0);
      if (!c) { fail("completed although its predecessor has not"); break; }
      int on = n.kind == K_LET_VALUE ? CH_VALUE : n.kind == K_LET_ERROR ? CH_ERROR : CH_DONE;
      if (c->channel == on) {
        if (n.throws && n.kind != K_LET_DONE) { expect(CH_ERROR, thrown, "successor factory threw"); KIT_CHECK(n1 == 0, "c05.sequencing", "node %d: successor connected although the factory threw", t->node); break; }
        if (conn_threw(w, t, n.child[1])) { expect(CH_ERROR, conn_code(w, t, n.child[1]), "connecting the successor threw: set_error(current_exception)"); break; }
        TapRec* s = child_done(c1, n1);
        if (!s) { fail("completed although its successor has not"); break; }
        KIT_CHECK(s->start_seq > c->sig_enter, "c05.sequencing", "node %d: successor started before the predecessor completed", t->node);
        same_as(s, "result of the successor");
      } else {
        KIT_CHECK(n1 == 0, "c05.sequencing", "node %d (%s): successor was connected although the predecessor completed with %s", t->node, kKindName[n.kind], ch_name(c->channel));
        same_as(c, "other channels forwarded unchanged");
      }
      break;
    }
    case K_FINALLY: {
      TapRec* s = child_done(c0, n0);
      TapRec* f = child_done(c1, n1);
      if (!s) { fail("completed although its source has not"); break; }
      if (conn_threw(w, t, n.child[1])) { expect(CH_ERROR, conn_code(w, t, n.child[1]), "connecting the completion sender threw: set_error"); break; }
      if (!f) { fail("completed although the completion sender has not run"); break; }
      KIT_CHECK(f->start_seq > s->sig_enter, "c05.sequencing", "finally: completion sender started before the source completed");
      if (f->channel == CH_VALUE) same_as(s, "source result after the completion sender's value");
      else same_as(f, "completion sender's done/error replaces the result");
      break;
    }
    case K_SEQUENCE: {
      TapRec* a = child_done(c0, n0);
      if (!a) { fail("completed although its first step has not"); break; }
      if (a->channel != CH_VALUE) {
        KIT_CHECK(n1 == 0 || !c1[0]->started, "c05.sequencing", "sequence: second step started although the first completed with %s", ch_name(a->channel));
        same_as(a, "first non-value signal wins");
      } else {
        if (conn_threw(w, t, n.child[1])) { expect(CH_ERROR, conn_code(w, t, n.child[1]), "connecting the next step threw: set_error"); break; }
        TapRec* b = child_done(c1, n1);
        if (!b) { fail("completed although its last step has not"); break; }
        KIT_CHECK(b->start_seq > a->sig_enter, "c05.sequencing", "sequence: second step started before the first completed");
        same_as(b, "result of the last step");
      }
      break;
    }
    case K_WHEN_ALL: {
      TapRec* ch[3] = {child_done(c0, n0), child_done(c1, n1), n.nchild > 2 ? child_done(c2, n2) : nullptr};
      int nc = n.nchild;
      for (int i = 0; i < nc; ++i) if (!ch[i]) { fail("completed although a child has not"); return; }
      bool allv = true;
      for (int i = 0; i < nc; ++i) allv &= ch[i]->channel == CH_VALUE;
      if (relaxed && t->channel == CH_DONE) break;  // receiver stop has precedence
      if (allv) {
        long ids[3];
        for (int i = 0; i < nc; ++i) ids[i] = ch[i]->payload;
        expect(CH_VALUE, combine(n.k, ids, nc), "all children produced values");
      } else {
        // the first child to complete with error/done decides; overlapping completions: either
        bool ok = false;
        for (int i = 0; i < nc; ++i) {
          if (ch[i]->channel == CH_VALUE) continue;
          bool could_be_first = true;
          for (int j = 0; j < nc; ++j)
            if (j != i && ch[j]->channel != CH_VALUE && strictly_before(ch[j], ch[i])) could_be_first = false;
          if (could_be_first && t->channel == ch[i]->channel && (t->channel == CH_DONE || t->payload == ch[i]->payload)) ok = true;
        }
        if (!ok) fail("not the result of the first child that completed with error/done");
      }
      break;
    }
    case K_WAR: {
      // like when_all, except that a stop request alone does not turn values into done: only a child's done/error does
      TapRec* ch[3] = {child_done(c0, n0), n.nchild > 1 ? child_done(c1, n1) : nullptr, n.nchild > 2 ? child_done(c2, n2) : nullptr};
      int nc = n.nchild;
      for (int i = 0; i < nc; ++i) if (!ch[i]) { fail("completed although a child has not"); return; }
      bool allv = true;
      for (int i = 0; i < nc; ++i) allv &= ch[i]->channel == CH_VALUE;
      if (allv) {
        long ids[3];
        for (int i = 0; i < nc; ++i) ids[i] = ch[i]->payload;
        expect(CH_VALUE, combine(n.k, ids, nc), "all children produced values");
      } else {
        bool ok = false;
        for (int i = 0; i < nc; ++i) {
          if (ch[i]->channel == CH_VALUE) continue;
          bool could_be_first = true;
          for (int j = 0; j < nc; ++j)
            if (j != i && ch[j]->channel != CH_VALUE && strictly_before(ch[j], ch[i])) could_be_first = false;
          if (could_be_first && t->channel == ch[i]->channel && (t->channel == CH_DONE || t->payload == ch[i]->payload)) ok = true;
        }
        if (!ok) fail("not the result of the first child that completed with error/done");
      }
      usim_probe("when_all_range outcome checked");
      break;
    }
    case K_SIR: {
      // stop_if_requested(): done without starting the successor when stop is visible at start, else the successor's result
      if (n0 == 0 || !c0[0]->started) {
        if (relaxed && t->channel == CH_DONE) { usim_probe("stop_if_requested answered done"); break; }
        if (conn_threw(w, t, n.child[0])) { expect(CH_ERROR, conn_code(w, t, n.child[0]), "connecting the successor threw: set_error"); break; }
        fail("completed although its successor was never started and no stop request was visible");
        break;
      }
      TapRec* c = child_done(c0, n0);
      if (!c) { fail("completed although its successor has not"); break; }
      same_as(c, "successor's result");
      break;
    }
    case K_REPEAT_JUST: {
      if (relaxed && t->channel == CH_DONE) break;
      expect(CH_VALUE, mix(n.k, 78), "every round's just(v) yields v, then the predicate says stop");
      break;
    }
    case K_RETRY_JUST: {
      if (relaxed && t->channel == CH_DONE) break;
      expect(CH_VALUE, n.k, "the third attempt's just(v) yields v");
      break;
    }
    case K_JUST_FROM:
      if (n.throws) expect(CH_ERROR, thrown, "callable threw: set_error(current_exception)");
      else expect(CH_VALUE, n.k, "just_from(f) yields f()");
      break;
    case K_REPEAT: {
      // source instance i runs; on value the predicate is asked: true => value, false => instance i+1 starts; error/done pass through
      if (n0 == 0) { fail("completed although its source was never connected"); break; }
      int rounds = 1 + (int)(n.k % 3);
      bool decided = false;
      for (int i = 0; i < n0 && !decided; ++i) {
        TapRec* src = c0[i];
        if (!src->completed) { fail("completed although a source round has not"); decided = true; break; }
        if (i > 0) KIT_CHECK(src->start_seq > c0[i - 1]->sig_enter, "c05.sequencing", "repeat_effect_until: round %d started before round %d completed", i, i - 1);
        if (src->channel != CH_VALUE) { same_as(src, "error/done of a round ends the repetition"); decided = true; break; }
        if (n.throws && i == 0) { expect(CH_ERROR, -6000 - t->node, "the predicate threw: set_error"); decided = true; break; }
        if (i + 1 >= rounds) { expect(CH_VALUE, mix(n.k, 77), "the predicate said stop after this round"); decided = true; break; }
        if (i + 1 >= n0) {
          if (conn_threw(w, t, n.child[0])) expect(CH_ERROR, conn_code(w, t, n.child[0]), "re-connecting the source threw: set_error");
          else fail("the predicate asked for another round but the source was not restarted");
          decided = true;
        }
      }
      if (!decided) fail("more source rounds than the predicate allows");
      break;
    }
    case K_WHEN_ANY: {
      // "always the completion result of the first sender to complete, even if done or error" (doc/api_reference.md)
      TapRec* ch[3] = {child_done(c0, n0), child_done(c1, n1), n.nchild > 2 ? child_done(c2, n2) : nullptr};
      int nc = n.nchild;
      for (int i = 0; i < nc; ++i) if (!ch[i]) { fail("completed although a child has not"); return; }
      if (relaxed && t->channel == CH_DONE) break;   // receiver stop has precedence
      if (w->fault_injected) break;                  // a throwing Val copy while the result is stored turns it into an error
      bool ok = false;
      for (int i = 0; i < nc; ++i) {
        bool could_be_first = true;
        for (int j = 0; j < nc; ++j)
          if (j != i && strictly_before(ch[j], ch[i])) could_be_first = false;
        if (could_be_first && t->channel == ch[i]->channel && (t->channel == CH_DONE || t->payload == ch[i]->payload)) ok = true;
      }
      if (!ok && relaxed && t->channel == CH_VALUE) {
        // recorded deviation: with a stop request visible on the receiver's token the inner when_all answers "done" whatever its
        // children did (stop has precedence) and when_any's let_done turns a done into the value a lagging child managed to store
        bool first_not_value = false, lagging_value = false;
        for (int i = 0; i < nc; ++i) {
          if (ch[i]->channel == CH_VALUE && ch[i]->payload == t->payload) lagging_value = true;
          bool could_be_first = true;
          for (int j = 0; j < nc; ++j) if (j != i && strictly_before(ch[j], ch[i])) could_be_first = false;
          if (could_be_first && ch[i]->channel != CH_VALUE) first_not_value = true;
        }
        if (first_not_value && lagging_value) {
          usim_report("c05.outcome", "node %d (when_any) delivered the value %ld of a lagging child although the first child completed with error and a stop request was visible "
                      "(the inner when_all answers done, when_any's let_done turns it into the stored value)", t->node, t->payload);
          break;
        }
      }
      if (!ok) fail("not the result of the first child to complete");
      else usim_probe("when_any outcome checked");
      break;
    }
    case K_STOP_WHEN: {
      TapRec* s = child_done(c0, n0);
      TapRec* g = child_done(c1, n1);
      if (!s || !g) { fail("completed before both source and trigger completed"); break; }
      same_as(s, "stop_when yields the source's result");
      break;
    }
    case K_UNSTOPPABLE: case K_WITH_TAG: case K_MAT_DEMAT: case K_LVWSS:
    case K_DEFER: case K_LVW: case K_LVWST: case K_ALLOCATE: case K_INTO_VARIANT: case K_VARIANT: case K_WITH_ALLOC: {
      TapRec* c = child_done(c0, n0);
      if (!c) { fail("completed although its child has not"); break; }
      same_as(c, "transparent adaptor");
      break;
    }
    case K_RETRY_WHEN: {
      // walk the attempts: source instance i; on error the trigger instance i decides
      if (n0 == 0) { fail("completed although its source was never connected"); break; }
      int ntrig_b = 0, ntrig_c = 0;
      bool decided = false;
      for (int i = 0; i < n0 && !decided; ++i) {
        TapRec* src = c0[i];
        if (!src->completed) { fail("completed although a source attempt has not"); decided = true; break; }
        if (src->channel != CH_ERROR) { same_as(src, "value/done of the source passes through"); decided = true; break; }
        // the trigger of this attempt: child 1 for the first three errors, then the give-up trigger
        TapRec* trig = nullptr;
        if (i < 3) { if (ntrig_b < n1) trig = c1[ntrig_b++]; }
        else { if (ntrig_c < n2) trig = c2[ntrig_c++]; }
        if (!trig) {
          int tc = i < 3 ? n.child[1] : n.child[2];
          if (conn_threw(w, t, tc)) { expect(CH_ERROR, conn_code(w, t, tc), "connecting the trigger threw (a nested connect): set_error"); decided = true; break; }
        }
        if (!trig || !trig->completed) { fail("completed although the retry trigger has not"); decided = true; break; }
        KIT_CHECK(trig->start_seq > src->sig_enter, "c05.sequencing", "retry_when: trigger started before the source attempt failed");
        if (trig->channel != CH_VALUE) { same_as(trig, "trigger done/error ends the retry loop"); decided = true; break; }
        // retry: the next source attempt must exist unless its re-connect threw
        if (i + 1 >= n0) {
          if (conn_threw(w, t, n.child[0])) expect(CH_ERROR, conn_code(w, t, n.child[0]), "re-connecting the source threw: set_error");
          else fail("trigger asked for a retry but the source was not restarted");
          decided = true;
        } else {
          KIT_CHECK(c0[i + 1]->start_seq > trig->sig_enter, "c05.sequencing", "retry_when: source restarted before the trigger completed");
        }
      }
      if (!decided) fail("every source attempt failed and was retried, yet the operation completed");
      break;
    }
    case K_ANY_SENDER: {
      TapRec* c = child_done(c0, n0);
      if (!c || t->channel != c->channel || (t->channel != CH_DONE && t->payload != c->payload))
        usim_report("c18.transparent", "any_sender_of (node %d) delivered %s %ld but the wrapped sender delivered %s %ld", t->node, ch_name(t->channel), t->payload,
                    c ? ch_name(c->channel) : "nothing", c ? c->payload : 0);
      break;
    }
    case K_DONE_AS_OPT: {
      TapRec* c = child_done(c0, n0);
      if (!c) { fail("completed although its child has not"); break; }
      if (c->channel == CH_DONE) expect(CH_VALUE, mix(n.k, -1), "done becomes an empty optional");
      else same_as(c, "value/error forwarded");
      break;
    }
    case K_VIA: {
      TapRec* c = child_done(c0, n0);
      if (!c) { fail("completed although its child has not"); break; }
      if (relaxed && t->channel == CH_DONE) break;  // the stoppable schedule() may answer done
      same_as(c, "via forwards the source's result");
      if (n.ctx >= 1) KIT_CHECK(t->sig_thread == w->ctx_thread[n.ctx], "c11.via", "via(ctx %d) delivered its result on T%d, not on the scheduler's thread", n.ctx, t->sig_tid);
      break;
    }
    case K_ON: {
      if (n0 == 0 || !c0[0]->started) {
        if (relaxed && t->channel == CH_DONE) break;  // schedule() answered done: child never started
        fail("completed although its child was never started");
        break;
      }
      TapRec* c = child_done(c0, n0);
      if (!c) { fail("completed although its child has not"); break; }
      same_as(c, "on forwards the child's result");
      if (n.ctx >= 1) {
        // the child was started on the scheduler's thread
        KIT_CHECK(w->ctx_thread[n.ctx] != std::thread::id{} , "c11.on", "harness: missing ctx");
      }
      break;
    }
    default: break;
  }
}

// which tag / scheduler a leaf must see: root's, modified by with_tag / on on the path
void expected_queries(World* w, int node, long* tag, int* sched, int* alloc) {
  *tag = w->root_tag;
  *sched = w->root_ctx;
  *alloc = w->root_alloc;
  // walk from root to node
  int path[kMaxNodes], np = 0;
  for (int x = node; x >= 0; x = w->nodes[x].parent) path[np++] = x;
  for (int i = np - 1; i >= 1; --i) {
    Node& p = w->nodes[path[i]];
    if (p.kind == K_ANY_SENDER) { *tag = -1; *sched = -3; *alloc = -1; }  // a plain any_sender_of<> declares no query besides the stop token
    if (p.kind == K_WITH_TAG) *tag = p.k;
    if (p.kind == K_WITH_ALLOC) *alloc = 2;
    if (p.kind == K_ON) *sched = p.ctx;
  }
}

TapRec* leaf_tap(World* w, LeafRec* r) {
  for (auto* t : w->taps) if (t->node == r->node && t->inst == r->inst) return t;
  return nullptr;
}
bool tap_under(TapRec* t, TapRec* anc) {
  for (TapRec* c = t; c; c = c->parent) if (c == anc) return true;
  return false;
}
// Is some *other* stop delivery possibly still in progress at `at` above this leaf? Only the request_stop()
// call that makes the transition on a source returns after every callback has run; a concurrent second
// caller returns at once. So "request X has returned" implies "X is visible below" only if no other
// request (external, or the internal one of an enclosing when_all / stop_when) is in flight on another thread.
bool other_stop_in_flight(World* w, TapRec* leaf, uint64_t at, TapRec* except_trigger, bool consider_external) {
  if (consider_external && w->ext_stop_begin && w->ext_stop_begin < at && (!w->ext_stop_end || w->ext_stop_end > at)) return true;
  for (TapRec* c = leaf; c && c->parent; c = c->parent) {
    TapRec* p = c->parent;
    Node& pn = w->nodes[p->node];
    if (!interposes_stop(pn.kind)) continue;
    for (auto* s : w->taps) {
      if (s->parent != p || s == c || s == except_trigger || !s->completed) continue;
      bool triggers = !is_when_all(pn.kind) || s->channel != CH_VALUE;
      if (triggers && s->sig_enter < at && (!s->sig_exit || s->sig_exit > at)) return true;
    }
  }
  return false;
}

bool shielded_from_root_stop(World* w, int node) {
  for (int x = w->nodes[node].parent; x >= 0; x = w->nodes[x].parent)
    if (w->nodes[x].kind == K_UNSTOPPABLE) return true;
  return false;
}

// ================================================================== the run
template <class Tok>
void run_expr(World* w) {
  using R = root_rcv<Tok>;
  using Op = unifex::connect_result_t<any_snd, R>;
  arena_box<Op>* box;
  { usim::np_scope np; box = new arena_box<Op>(); }
  struct Ctl { static void free_root(World* ww) { auto* b = (arena_box<Op>*)ww->root_op; if (b->alive()) b->destroy(); } };
  w->root_op = box;
  w->free_root = &Ctl::free_root;

  // actors complete deferred leaves
  std::thread actors[kMaxActors];
  for (int a = 0; a < kMaxActors; ++a)
    actors[a] = std::thread([w, a] {
      for (;;) {
        struct P { World* w; int a; LeafRec* pick;
          static int pred(void* p) {
            auto* q = (P*)p;
            q->pick = nullptr;
            for (auto* r : q->w->leafrecs)
              if (r->s.actor == q->a && r->s.mode == 1 && r->armed && !r->claimed) { q->pick = r; return 1; }
            return q->w->root_done ? 1 : 0;
          } } p{w, a, nullptr};
        usim_wait(&P::pred, &p);
        if (!p.pick) {
#ifndef NDEBUG
          KIT_CHECK(unifex::tryGetCurrentAsyncStackRoot() == nullptr, "c20.stack-root", "an async stack root is still installed on actor thread T%d when it goes idle", usim_here());
#endif
          return;
        }
        yields(p.pick->s.delay);
        p.pick->complete_fn(p.pick, 1);
      }
    });
  std::thread stopper([w] {
    if (w->ext_stop_mode < 2) return;
    if (w->ext_stop_mode == 3) {
      struct P { World* w; static int pred(void* p) { auto* w = ((P*)p)->w; if (w->root_done) return 1; for (auto* r : w->leafrecs) if (r->leaf == w->ext_stop_leaf && r->started) return 1; return 0; } } p{w};
      usim_wait(&P::pred, &p);
    }
    yields(w->ext_stop_yields);
    bool go;
    { usim::np_scope np; go = !w->root_done || w->root_token_kind == 0; if (w->root_sim && w->root_done) go = false; if (go) w->ext_stop_begin = seq(); }
    if (!go) return;
    if (w->root_inplace) w->root_inplace->request_stop(); else w->root_sim->request_stop(true);
    { usim::np_scope np; w->ext_stop_end = seq(); }
  });

  if (w->ext_stop_mode == 1) {
    { usim::np_scope np; w->ext_stop_begin = seq(); }
    if (w->root_inplace) w->root_inplace->request_stop(); else w->root_sim->request_stop();
    { usim::np_scope np; w->ext_stop_end = seq(); }
  }
  bool connected = true;
  if (w->root_mode == 1) {
    // sync_wait(): connect, start and the wait for the result all happen inside; the result comes back as
    // optional<Val> (value / done) or as a rethrown exception (error - or a connect() that threw)
    int ch = CH_NONE;
    long payload = 0;
    { usim::np_scope np; w->root_start_seq = seq(); }
    try {
      std::optional<Val> r = unifex::sync_wait(any_snd{w->nodes[w->root].impl});
      if (r) { ch = CH_VALUE; payload = r->get(); } else ch = CH_DONE;
    } catch (...) {
      ch = CH_ERROR;
      payload = error_code(std::current_exception());
    }
    {
      usim::np_scope np;
      bool root_started = false;
      for (auto* t : w->taps) if (t->node == w->root && t->started) root_started = true;
      if (!root_started && ch == CH_ERROR) { w->root_start_seq = 0; usim_probe("sync_wait: connect threw"); }  // never started: the exception came out of connect()
      else {
        w->root_completions = 1;
        w->root_channel = ch;
        w->root_payload = payload;
        w->root_done_seq = w->root_done_exit = seq();
        w->root_done_thread = std::this_thread::get_id();
        usim_probe("sync_wait returned the root's result");
      }
    }
    w->root_done = 1;
    goto join_helpers;
  }
  if (w->alloc_fault) { w->alloc_window_open = true; usim_alloc_fault_window(1); }
  try {
    box->construct_with([&] { return unifex::connect(any_snd{w->nodes[w->root].impl}, R{w}); });
  } catch (const std::bad_alloc&) {
    connected = false;
    usim::np_scope np;
    w->fault_injected = true;
    usim_probe("top-level connect: allocation failed");
  } catch (...) {
    connected = false;
  }
  if (w->alloc_fault) { w->alloc_window_open = false; usim_alloc_fault_window(0); }
  if (connected) {
    { usim::np_scope np; w->root_start_seq = seq(); }
    unifex::start(**box);
    wait_flag(&w->root_done);
  } else {
    w->root_done = 1;
  }
  join_helpers:
  for (int a = 0; a < kMaxActors; ++a) actors[a].join();
  stopper.join();
#ifndef NDEBUG
  KIT_CHECK(unifex::tryGetCurrentAsyncStackRoot() == nullptr, "c20.stack-root", "an async stack root is still installed on the starting thread after the operation completed");
#endif
  if (box->alive()) box->destroy();
  { usim::np_scope np; delete box; }
}

void body_expr(void*) {
  World* w;
  { usim::np_scope np; w = new World(); g_world = w; }
  // ---- plan
  int budget = draw_range(2, 12);
  int depth = draw_range(1, 4);
  w->root = gen(w, depth, -1, &budget);
  w->root_tag = 4242;
  w->root_ctx = draw(3);
  w->root_token_kind = draw(3) == 0 ? 1 : 0;
  w->free_in_completion = draw(4) != 0;
  int faults = (int)usim_param_int("faults", 1);
  int sm = draw(10);
  w->ext_stop_mode = !faults ? 0 : sm < 5 ? 0 : sm < 6 ? 1 : sm < 8 ? 2 : 3;
  w->ext_stop_yields = draw_small(30);
  w->ext_stop_leaf = w->nleaves ? draw(w->nleaves) : 0;
  if (!w->nleaves && w->ext_stop_mode == 3) w->ext_stop_mode = 2;
  if (faults && draw(6) == 0) w->val_copy_throw_at = 1 + draw(6);
  if (!faults) for (int i = 0; i < w->nnodes; ++i) w->nodes[i].throws = false;
  if (faults && draw(5) == 0) {
    // one late connect throws: a successor (let_*, sequence, finally) or a retried source
    int cand[kMaxNodes], nc = 0;
    for (int i = 0; i < w->nnodes; ++i) {
      Node& p = w->nodes[i];
      if (p.kind == K_LET_VALUE || p.kind == K_LET_ERROR || p.kind == K_LET_DONE || p.kind == K_SEQUENCE || p.kind == K_FINALLY) cand[nc++] = p.child[1];
      if (p.kind == K_RETRY_WHEN) cand[nc++] = -1 - p.child[0];
    }
    if (nc) {
      int c = cand[draw(nc)];
      if (c >= 0) w->nodes[c].throw_on_connect = 0;
      else w->nodes[-1 - c].throw_on_connect = 1 + draw(2);  // a retry's re-connect
    }
  }
  if (draw(3) == 0) usim_fault_rate(USIM_F_CAS_WEAK, 100);
  if (draw(4) == 0) usim_fault_rate(USIM_F_COND_SPURIOUS, 100);
  if (usim_param_int("syncw", 0) && draw(3) == 0) {
    w->root_mode = 1;
    w->root_token_kind = 0;
    w->ext_stop_mode = 0;         // sync_wait's receiver has no stop token
    w->root_tag = -1;             // ... answers no custom query,
    w->root_ctx = -2;             // ... offers its own manual_event_loop's scheduler
    w->root_alloc = -1;           // ... and no allocator
  }
  if (w->root_mode == 0 && usim_param_int("alloc", 0) && draw(2) == 0) { w->alloc_fault = true; usim_fault_rate(USIM_F_ALLOC, 60 + 60 * draw(4)); }
  if (usim_param_int("alloc", 0) && draw(8) == 0) {
    // a user connect() that throws directly below a let_value_with_stop_source (connected inside its noexcept connect())
    for (int i = 0; i < w->nnodes; ++i)
      if (w->nodes[i].kind == K_LVWSS && w->nodes[w->nodes[i].child[0]].throw_on_connect < 0) { w->nodes[w->nodes[i].child[0]].throw_on_connect = 0; break; }
  }
  {
    usim::np_scope np;
    char buf[900];
    int o = describe(w, w->root, buf, 760);
    snprintf(buf + o, sizeof buf - o, " | root: %stok=%s ctx=%d free_in_completion=%d ext_stop=%d/%d copy_throw=%d", w->root_mode ? "sync_wait " : "", w->root_token_kind ? "sim" : "inplace",
             w->root_ctx, (int)w->free_in_completion, w->ext_stop_mode, w->ext_stop_yields, w->val_copy_throw_at);
    usim_sample("%s", buf);
  }
  // ---- world objects
  for (int i = 1; i <= 2; ++i) { w->ctx[i].construct(); w->ctx_thread[i] = w->ctx[i]->get_thread_id(); }
  arena_box<unifex::inplace_stop_source> rs_in;
  arena_box<kit::sim_stop_source> rs_sim;
  if (w->root_token_kind == 0) { rs_in.construct(); w->root_inplace = rs_in.p; }
  else { rs_sim.construct(); w->root_sim = rs_sim.p; }
  build_node(w, w->root);

  if (w->root_token_kind == 0) run_expr<unifex::inplace_stop_token>(w);
  else run_expr<kit::sim_stop_token>(w);

  // quiesce: the completing context thread may still be unwinding out of the completion
  for (int i = 1; i <= 2; ++i) w->ctx[i].destroy();
  // ---- oracles over the history
  {
    usim::np_scope np;
    bool relaxed = w->ext_stop_begin != 0;
    bool faulty = w->fault_injected;
    KIT_CHECK(w->root_completions <= 1, "c01.double-signal", "root completed %d times", w->root_completions);
    if (w->root_start_seq) KIT_CHECK(w->root_completions == 1, "c01.lost-completion", "the started root operation never completed");
    for (auto* t : w->taps) {
      Node& n = w->nodes[t->node];
      if (t->started) KIT_CHECK(t->completed, "c01.lost-completion", "node %d (%s) instance %d was started but never completed", t->node, kKindName[n.kind], t->inst);
      else KIT_CHECK(!t->completed, "c01.signal-without-start", "node %d (%s) completed without having been started", t->node, kKindName[n.kind]);
      KIT_CHECK(t->destroyed, "c02.leak-object", "operation state of node %d (%s) instance %d was never destroyed", t->node, kKindName[n.kind], t->inst);
      if (t->completed && w->root_done_seq) KIT_CHECK(t->sig_enter <= w->root_done_seq || t->node == w->root, "c01.double-signal", "node %d completed after the root receiver was completed", t->node);
    }
    for (auto* r : w->leafrecs) {
      if (r->started) KIT_CHECK(r->claimed, "c01.lost-completion", "leaf %d was started but never completed (nobody could complete it)", r->leaf);
      // C12: queries
      if (r->started) {
        long tag; int sched, alloc;
        expected_queries(w, r->node, &tag, &sched, &alloc);
        KIT_CHECK(r->tag_seen == tag, "c12.query", "leaf %d saw custom query value %ld through its receiver, expected %ld", r->leaf, r->tag_seen, tag);
        KIT_CHECK(r->sched_seen == sched, "c12.query", "leaf %d saw scheduler %d through its receiver, expected %d", r->leaf, r->sched_seen, sched);
        KIT_CHECK(r->alloc_seen == alloc, "c12.query", "leaf %d saw allocator %d through its receiver, expected %d", r->leaf, r->alloc_seen, alloc);
        usim_probe("leaf probed receiver queries");
      }
      // C04: an external stop request that returned before the leaf completed must be visible on its token
      if (r->claimed && w->ext_stop_end && w->ext_stop_end < r->complete_begin && r->started && !shielded_from_root_stop(w, r->node) &&
          !other_stop_in_flight(w, leaf_tap(w, r), r->complete_begin, nullptr, false)) {
        KIT_CHECK(r->stop_at_completion, "c04.child-not-stopped", "leaf %d completed after the external stop request had returned, but its stop token did not report stop_requested()", r->leaf);
        usim_probe("external stop visible at running leaf");
      }
      if (r->started && w->ext_stop_end && w->ext_stop_end < r->start_seq && !shielded_from_root_stop(w, r->node) &&
          !other_stop_in_flight(w, leaf_tap(w, r), r->start_seq, nullptr, false)) {
        KIT_CHECK(r->stop_at_start, "c04.started-after-stop", "leaf %d was started after the external stop request returned with stop_requested()==false", r->leaf);
        usim_probe("leaf started already-stopped");
      }
    }
    // C12: every allocation made through an allocator obtained from a receiver went back to the same allocator
    KIT_CHECK(w->astats[4].allocs == 0 && w->astats[4].deallocs == 0, "c12.allocator-identity", "%ld allocation(s) were served by an arena that is never visible through any receiver (an adaptor replaced the allocator it was given)", (long)w->astats[4].allocs);
    for (int id = 0; id < 5; ++id) {
      AllocStats& a = w->astats[id];
      KIT_CHECK(a.allocs == a.deallocs && a.bytes == 0, "c12.allocator-pairing", "allocator %d served %ld allocations and received %ld deallocations (%ld bytes outstanding)", id, (long)a.allocs, (long)a.deallocs, (long)a.bytes);
      if (a.allocs) usim_probe("allocator pairing checked");
    }
    // C04: losers of when_all / stop_when are told to stop
    for (auto* t : w->taps) {
      Node& n = w->nodes[t->node];
      if (!interposes_stop(n.kind)) continue;
      for (int ci = 0; ci < n.nchild; ++ci) {
        TapRec* cs[4];
        int cn = child_taps(w, n.child[ci], t, cs, 4);
        if (!cn || !cs[0]->completed) continue;
        bool triggers = !is_when_all(n.kind) ? true : cs[0]->channel != CH_VALUE;
        if (!triggers) continue;
        // every leaf in a sibling subtree that completed after this child's completion was fully delivered must have seen stop
        for (auto* r : w->leafrecs) {
          if (!r->claimed || !r->started) continue;
          bool in_sibling = false, shielded = false;
          for (int x = r->node; x >= 0 && x != t->node; x = w->nodes[x].parent) {
            if (w->nodes[x].kind == K_UNSTOPPABLE) shielded = true;
            if (w->nodes[x].parent == t->node && x != n.child[ci]) in_sibling = true;
          }
          if (!in_sibling || shielded) continue;
          // belongs to this when_all / stop_when instance? (instances of retried subtrees are told apart by the tap links)
          TapRec* lt = leaf_tap(w, r);
          if (!lt || !tap_under(lt, t)) continue;
          if (other_stop_in_flight(w, lt, r->complete_begin, cs[0], true)) continue;
          if (cs[0]->sig_exit && cs[0]->sig_exit < r->complete_begin) {
            KIT_CHECK(r->stop_at_completion, "c04.loser-not-stopped", "leaf %d under %s node %d completed after sibling node %d had finished with %s, but never saw a stop request", r->leaf,
                      kKindName[n.kind], t->node, n.child[ci], ch_name(cs[0]->channel));
            usim_probe("loser saw internal stop");
          }
        }
      }
    }
    // C05: local model at every tap (exact without external stop and without injected throws elsewhere)
    if (!(faulty && w->val_copy_throw_at)) {
      for (auto* t : w->taps) check_tap(w, t, relaxed);
      if (w->root_completions) {
        TapRec* rt = nullptr;
        for (auto* t : w->taps) if (t->node == w->root) rt = t;
        if (rt && rt->completed)
          KIT_CHECK(rt->channel == w->root_channel && (rt->channel == CH_DONE || rt->payload == w->root_payload), "c05.outcome", "root receiver got %s %ld but the root node delivered %s %ld",
                    ch_name(w->root_channel), w->root_payload, ch_name(rt->channel), rt->payload);
      }
    } else {
      // a throwing Val copy must surface as an error somewhere, never as a lost or doubled signal (checked above)
      usim_probe("fault run: model relaxed");
    }
    // C05: callables run exactly when their channel fired
    for (int i = 0; i < w->nnodes; ++i) {
      Node& n = w->nodes[i];
      if (n.kind != K_THEN && n.kind != K_UPON_ERROR && n.kind != K_UPON_DONE) continue;
      int on = n.kind == K_THEN ? CH_VALUE : n.kind == K_UPON_ERROR ? CH_ERROR : CH_DONE;
      int want = 0, got = 0;
      for (auto* t : w->taps) if (t->node == n.child[0] && t->completed && t->channel == on) ++want;
      for (auto& c : w->calls) if (c.node == i) ++got;
      if (!(faulty && w->val_copy_throw_at))
        KIT_CHECK(want == got, "c05.fn-calls", "callable of node %d (%s) ran %d times but its child completed on the matching channel %d times", i, kKindName[n.kind], got, want);
    }
    // C05: a just(v) connected again (as an lvalue, by repeat_effect_until / retry_when) yields the same v every time
    for (int i = 0; i < w->nnodes; ++i) {
      Node& n = w->nodes[i];
      if (n.kind != K_REPEAT_JUST && n.kind != K_RETRY_JUST) continue;
      for (auto& c : w->calls)
        if (c.node == i) {
          KIT_CHECK(c.arg == n.k, "c05.outcome", "node %d (%s): a round's just(%ld) delivered %ld", i, kKindName[n.kind], n.k, c.arg);
          usim_probe("re-connected just delivered its value");
        }
    }
    // C02: every tracked value destroyed exactly once
    KIT_CHECK(w->vals_alive == 0, "c02.leak-object", "%d tracked value(s) still alive after the operation was destroyed", w->vals_alive);
    if (w->root_channel == CH_VALUE) usim_probe("root value");
    if (w->root_channel == CH_ERROR) usim_probe("root error");
    if (w->root_channel == CH_DONE) usim_probe("root done");
    if (w->ext_stop_begin && w->root_done_seq > w->ext_stop_begin) usim_probe("external stop before root completion");
  }
  if (rs_in.alive()) rs_in.destroy();
  if (rs_sim.alive()) rs_sim.destroy();
  {
    usim::np_scope np;
    for (int i = 0; i < w->nnodes; ++i) delete w->nodes[i].impl;
    for (auto* t : w->taps) delete t;
    for (auto* r : w->leafrecs) delete r;
    for (auto& k : w->kept) k.del(k.p);
    g_world = nullptr;
    delete w;
  }
}

}  // namespace

int main(int argc, char** argv) {
  static const usim_workload table[] = {{"expr", body_expr}};
  return usim_main(argc, argv, table, 1);
}
