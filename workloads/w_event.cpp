// w_event — C16: manual-reset events (v1, v2), the auto-reset event stream and async_pass.
// See DESIGN.md §8 C16.
#include <kit/base.hpp>
#include <kit/recv.hpp>

#include <unifex/async_auto_reset_event.hpp>
#include <unifex/async_manual_reset_event.hpp>
#if __cplusplus >= 202002L
#include <unifex/async_pass.hpp>
#define W_HAVE_PASS 1
#endif
#include <unifex/inline_scheduler.hpp>
#include <unifex/single_thread_context.hpp>
#include <unifex/v2/async_manual_reset_event.hpp>

using namespace kit;

namespace {

constexpr int kMaxW = 5;
constexpr int kMaxOps = 8;

struct SetterOp {
  int kind = 0;  // 0 set, 1 reset, 2 ready
  int pre = 0;
  uint64_t begin = 0, end = 0;
  bool ready_result = false;
};

struct EWorld {
  int nwait = 1;
  OpRec rec[kMaxW + 2];
  unifex::inplace_stop_source stops[kMaxW + 2];
  int w_pre[kMaxW + 2];
  int w_stop_mode[kMaxW + 2];  // 0 none, 1 before start, 2 stopper
  int w_stop_yields[kMaxW + 2];
  int nset = 1;                // setter threads
  int nops[2] = {0, 0};
  SetterOp ops[2][kMaxOps];
  int sched_mode = 0;          // 0 inline, 1 shared context, 2 per-waiter context
  std::thread::id ctx_thread[kMaxW + 2];
  uint64_t final_set_begin = 0, final_set_end = 0;
  int nlate = 0;
};

void plan_event(EWorld* w, bool cancellable) {
  w->nwait = draw_range(1, kMaxW);
  w->nset = draw_range(1, 2);
  for (int i = 0; i < w->nwait + 2; ++i) {
    w->rec[i].what = "async_wait";
    w->rec[i].a = i;
    w->rec[i].oracle_double = "c16.wait-double";
    w->rec[i].stop = &w->stops[i];
    w->w_pre[i] = draw_small(8);
    int sm = cancellable ? draw(6) : 0;
    w->w_stop_mode[i] = sm < 3 ? 0 : sm < 4 ? 1 : 2;
    w->w_stop_yields[i] = draw_small(8);
  }
  for (int s = 0; s < w->nset; ++s) {
    w->nops[s] = draw_range(0, 5);
    for (int k = 0; k < w->nops[s]; ++k) {
      int kd = draw(5);
      w->ops[s][k].kind = kd < 3 ? 0 : kd < 4 ? 1 : 2;
      w->ops[s][k].pre = draw_small(6);
    }
  }
  w->sched_mode = draw(3);
  w->nlate = draw(3) == 0 ? draw_range(1, 2) : 0;
  if (draw(3) == 0) usim_fault_rate(USIM_F_CAS_WEAK, 100);
  if (draw(4) == 0) usim_fault_rate(USIM_F_COND_SPURIOUS, 100);
}

template <class Event>
void setter(EWorld* w, Event* ev, int s) {
  for (int k = 0; k < w->nops[s]; ++k) {
    SetterOp& o = w->ops[s][k];
    yields(o.pre);
    { usim::np_scope np; o.begin = seq(); }
    if (o.kind == 0) ev->set();
    else if (o.kind == 1) ev->reset();
    else o.ready_result = ev->ready();
    { usim::np_scope np; o.end = seq(); }
  }
}

void event_checks(EWorld* w, bool cancellable, bool check_ctx) {
  usim::np_scope np;
  int total = w->nwait + w->nlate;
  for (int i = 0; i < total; ++i) {
    OpRec& r = w->rec[i];
    KIT_CHECK(r.completions == 1, "c16.wait-lost", "async_wait %d never completed although the event was set afterwards", i);
    KIT_CHECK(r.channel != CH_ERROR, "c16.wait-lost", "async_wait %d completed with an error", i);
    if (r.channel == CH_DONE) {
      KIT_CHECK(cancellable && r.stop_begin && r.stop_begin < r.done_seq, "c16.wait-early", "async_wait %d completed with done without a stop request", i);
      usim_probe("wait cancelled");
      continue;
    }
    if (r.stop_begin) usim_probe("cancellation lost the race against set()");
    // a value completion needs a set() that began before it and was not annulled, for this wait,
    // by a reset() lying strictly between that set() and the start of the wait
    bool justified = false;
    auto consider = [&](uint64_t sb, uint64_t se) {
      if (!sb || sb > r.done_seq) return;
      bool annulled = false;
      for (int s = 0; s < w->nset; ++s)
        for (int k = 0; k < w->nops[s]; ++k) {
          SetterOp& o = w->ops[s][k];
          if (o.kind == 1 && o.begin > se && o.end && o.end < r.start_begin) annulled = true;
        }
      if (!annulled) justified = true;
    };
    for (int s = 0; s < w->nset; ++s)
      for (int k = 0; k < w->nops[s]; ++k)
        if (w->ops[s][k].kind == 0) consider(w->ops[s][k].begin, w->ops[s][k].end ? w->ops[s][k].end : ~0ull);
    consider(w->final_set_begin, w->final_set_end ? w->final_set_end : ~0ull);
    KIT_CHECK(justified, "c16.wait-early", "async_wait %d completed with value although no set() that could reach it had begun", i);
    if (check_ctx)
      KIT_CHECK(r.done_thread == w->ctx_thread[i], "c16.context", "async_wait %d completed with value on T%d, not on its receiver's scheduler", i, r.done_tid);
    if (r.done_seq < w->final_set_begin) usim_probe("wait woken by a scripted set()");
  }
  // ready() results: true needs a set() begun before its end; false after the final set is impossible (not sampled there)
  for (int s = 0; s < w->nset; ++s)
    for (int k = 0; k < w->nops[s]; ++k) {
      SetterOp& o = w->ops[s][k];
      if (o.kind != 2 || !o.ready_result) continue;
      bool any = false;
      for (int s2 = 0; s2 < w->nset; ++s2)
        for (int k2 = 0; k2 < w->nops[s2]; ++k2)
          if (w->ops[s2][k2].kind == 0 && w->ops[s2][k2].begin && w->ops[s2][k2].begin < o.end) any = true;
      KIT_CHECK(any, "c16.reset", "ready() returned true although no set() had begun");
    }
}

template <class Event, class Sched, class GetSched>
void run_event(EWorld* w, GetSched get_sched, bool cancellable, bool check_ctx) {
  arena_box<Event> ev;
  ev.construct();
  using Sender = decltype(ev->async_wait());
  started_op<Sched, Sender> ops[kMaxW + 2];
  std::thread thr[kMaxW + 4];
  int nt = 0;
  for (int i = 0; i < w->nwait; ++i)
    thr[nt++] = std::thread([w, i, &ev, &ops, get_sched] {
      yields(w->w_pre[i]);
      if (w->w_stop_mode[i] == 1) w->rec[i].request_stop();
      ops[i].start(&w->rec[i], get_sched(i), ev->async_wait());
    });
  for (int s = 0; s < w->nset; ++s) thr[nt++] = std::thread([w, s, &ev] { setter(w, ev.p, s); });
  if (cancellable)
    thr[nt++] = std::thread([w] {
      for (int i = 0; i < w->nwait; ++i) {
        if (w->w_stop_mode[i] != 2) continue;
        struct P { OpRec* r; static int pred(void* p) { return ((P*)p)->r->start_begin != 0; } } p{&w->rec[i]};
        usim_wait(&P::pred, &p);
        yields(w->w_stop_yields[i]);
        w->rec[i].request_stop();
      }
    });
  for (int i = 0; i < nt; ++i) thr[i].join();
  // the final set(): every wait started so far must now complete without further help
  { usim::np_scope np; w->final_set_begin = seq(); }
  ev->set();
  { usim::np_scope np; w->final_set_end = seq(); }
  // waits started while the event is set complete without another set()
  for (int j = 0; j < w->nlate; ++j) {
    int i = w->nwait + j;
    w->w_stop_mode[i] = 0;
    ops[i].start(&w->rec[i], get_sched(i), ev->async_wait());
  }
  for (int i = 0; i < w->nwait + w->nlate; ++i) w->rec[i].wait();
  for (int i = 0; i < w->nwait + w->nlate; ++i) ops[i].destroy();
  KIT_CHECK(ev->ready(), "c16.reset", "event not ready() after the final set()");
  event_checks(w, cancellable, check_ctx);
  ev.destroy();
}

template <class Event>
void body_event(bool cancellable, const char* name) {
  EWorld* w;
  { usim::np_scope np; w = new EWorld(); }
  plan_event(w, cancellable);
  {
    usim::np_scope np;
    char buf[300];
    int o = snprintf(buf, sizeof buf, "%s: sched=%d waiters=%d late=%d stops=[", name, w->sched_mode, w->nwait, w->nlate);
    for (int i = 0; i < w->nwait; ++i) o += snprintf(buf + o, sizeof buf - o, "%d", w->w_stop_mode[i]);
    o += snprintf(buf + o, sizeof buf - o, "] setters=");
    for (int s = 0; s < w->nset; ++s) {
      o += snprintf(buf + o, sizeof buf - o, "(");
      for (int k = 0; k < w->nops[s]; ++k) o += snprintf(buf + o, sizeof buf - o, "%c", "SRr"[w->ops[s][k].kind]);
      o += snprintf(buf + o, sizeof buf - o, ")");
    }
    usim_sample("%s", buf);
  }
  if (w->sched_mode == 0) {
    run_event<Event, unifex::inline_scheduler>(w, [](int) { return unifex::inline_scheduler{}; }, cancellable, false);
  } else {
    int nctx = w->sched_mode == 1 ? 1 : w->nwait + w->nlate;
    arena_box<unifex::single_thread_context> ctx[kMaxW + 2];
    for (int i = 0; i < nctx; ++i) ctx[i].construct();
    for (int i = 0; i < w->nwait + w->nlate; ++i) w->ctx_thread[i] = ctx[w->sched_mode == 1 ? 0 : i]->get_thread_id();
    auto* cp = ctx;
    int mode = w->sched_mode;
    using S = decltype(ctx[0]->get_scheduler());
    run_event<Event, S>(w, [cp, mode](int i) { return cp[mode == 1 ? 0 : i]->get_scheduler(); }, cancellable, true);
    for (int i = 0; i < nctx; ++i) ctx[i].destroy();
  }
  { usim::np_scope np; delete w; }
}

void body_v1(void*) { body_event<unifex::v1::async_manual_reset_event>(false, "manual_reset_event v1"); }
void body_v2(void*) { body_event<unifex::v2::async_manual_reset_event>(true, "manual_reset_event v2"); }

// ------------------------------------------------------------------ auto-reset event (a stream)
struct AWorld {
  int nnext = 1;
  OpRec rec[8];
  unifex::inplace_stop_source stops[8];
  int stop_mode[8];
  int stop_yields[8];
  int nsets = 0;
  int set_pre[8];
  uint64_t set_begin[8], set_end[8];
  bool done_by_setter = false;
  int done_yields = 4;
  uint64_t set_done_begin = 0;
};

void body_auto(void*) {
  AWorld* w;
  { usim::np_scope np; w = new AWorld(); }
  w->nnext = draw_range(1, 6);
  w->nsets = draw_range(0, 6);
  for (int i = 0; i < w->nnext; ++i) {
    w->rec[i].what = "auto_reset.next";
    w->rec[i].a = i;
    w->rec[i].oracle_double = "c16.wait-double";
    w->rec[i].stop = &w->stops[i];
    int sm = draw(8);
    w->stop_mode[i] = sm < 6 ? 0 : 2;
    w->stop_yields[i] = draw_small(8);
  }
  for (int k = 0; k < w->nsets; ++k) w->set_pre[k] = draw_small(8);
  w->done_by_setter = draw_bool();
  w->done_yields = draw(80);
  bool start_ready = draw(4) == 0;
  if (draw(3) == 0) usim_fault_rate(USIM_F_CAS_WEAK, 100);
  usim_sample("auto_reset_event: nexts=%d sets=%d start_ready=%d", w->nnext, w->nsets, (int)start_ready);
  arena_box<unifex::single_thread_context> ctx;
  ctx.construct();
  arena_box<unifex::async_auto_reset_event> ev;
  ev.construct(start_ready);
  auto sched = ctx->get_scheduler();
  using S = decltype(sched);
  // consumer: strictly sequential next() operations, as a stream consumer does
  std::thread consumer([w, &ev, sched] {
    auto stream = ev->stream();
    for (int i = 0; i < w->nnext; ++i) {
      using Sender = decltype(stream.next());
      started_op<S, Sender> op;
      op.start(&w->rec[i], sched, stream.next());
      w->rec[i].wait();
      op.destroy();
    }
  });
  std::thread setter([w, &ev] {
    for (int k = 0; k < w->nsets; ++k) {
      yields(w->set_pre[k]);
      { usim::np_scope np; w->set_begin[k] = seq(); }
      ev->set();
      { usim::np_scope np; w->set_end[k] = seq(); }
    }
    yields(w->done_yields);
    // end of the stream: everything still waiting turns done
    { usim::np_scope np; w->set_done_begin = seq(); }
    ev->set_done();
  });
  std::thread stopper([w] {
    for (int i = 0; i < w->nnext; ++i) {
      if (w->stop_mode[i] != 2) continue;
      struct P { OpRec* r; static int pred(void* p) { return ((P*)p)->r->start_begin != 0; } } p{&w->rec[i]};
      usim_wait(&P::pred, &p);
      yields(w->stop_yields[i]);
      w->rec[i].request_stop();
    }
  });
  consumer.join();
  setter.join();
  stopper.join();
  {
    usim::np_scope np;
    int values = 0;
    bool seen_done = false;
    for (int i = 0; i < w->nnext; ++i) {
      OpRec& r = w->rec[i];
      KIT_CHECK(r.completions == 1, "c16.wait-lost", "auto-reset next() %d never completed", i);
      KIT_CHECK(r.channel != CH_ERROR, "c16.auto-reset", "auto-reset next() %d completed with an error", i);
      if (r.channel == CH_VALUE) {
        KIT_CHECK(!seen_done, "c16.auto-reset", "auto-reset next() %d produced an element after the stream had turned done", i);
        ++values;
        // attributable to a set() (or the initial ready state) that began before this completion
        int avail = start_ready ? 1 : 0;
        for (int k = 0; k < w->nsets; ++k)
          if (w->set_begin[k] && w->set_begin[k] < r.done_seq) ++avail;
        KIT_CHECK(values <= avail, "c16.auto-reset", "auto-reset event delivered %d elements but only %d set() calls had begun", values, avail);
      } else {
        seen_done = true;
      }
    }
    KIT_CHECK(values <= w->nsets + (start_ready ? 1 : 0), "c16.auto-reset", "more elements (%d) than set() calls (%d)", values, w->nsets);
    if (values) usim_probe("auto-reset delivered an element");
    if (seen_done) usim_probe("auto-reset turned done");
  }
  ev.destroy();
  ctx.destroy();
  { usim::np_scope np; delete w; }
}

// ------------------------------------------------------------------ async_pass
#ifdef W_HAVE_PASS
struct PWorld {
  int ncall = 1, nacc = 1;
  OpRec call[6], acc[6];
  unifex::inplace_stop_source cstop[6], astop[6];
  int ckind[6], akind[6];      // 0 async, 1 try_*
  int cstopm[6], astopm[6];    // 0 none, 2 stopper
  int cpre[6], apre[6], cstopy[6], astopy[6];
  long payload[6];
  volatile int caller_done = 0, acceptor_done = 0;
  long accepted[12];
  int naccepted = 0;
  bool try_call_ok[6], try_acc_ok[6];
  int sched_mode = 0;
  std::thread::id ctx_thread[2];
};

void body_pass(void*) {
  PWorld* w;
  { usim::np_scope np; w = new PWorld(); }
  w->ncall = draw_range(1, 5);
  w->nacc = draw_range(1, 5);
  for (int i = 0; i < 6; ++i) {
    w->call[i].what = "async_call"; w->call[i].a = i; w->call[i].oracle_double = "c16.wait-double"; w->call[i].stop = &w->cstop[i];
    w->acc[i].what = "async_accept"; w->acc[i].a = i; w->acc[i].oracle_double = "c16.wait-double"; w->acc[i].stop = &w->astop[i];
    w->ckind[i] = draw(5) == 0; w->akind[i] = draw(5) == 0;
    w->cstopm[i] = draw(4) == 0 ? 2 : 0; w->astopm[i] = draw(4) == 0 ? 2 : 0;
    w->cpre[i] = draw_small(6); w->apre[i] = draw_small(6);
    w->cstopy[i] = draw_small(8); w->astopy[i] = draw_small(8);
    w->payload[i] = 1000 + i;
    w->try_call_ok[i] = w->try_acc_ok[i] = false;
  }
  w->sched_mode = draw(2);
  if (draw(3) == 0) usim_fault_rate(USIM_F_CAS_WEAK, 100);
  usim_sample("async_pass: calls=%d accepts=%d sched=%d", w->ncall, w->nacc, w->sched_mode);
  arena_box<unifex::single_thread_context> ctx[2];
  ctx[0].construct();
  ctx[1].construct();
  w->ctx_thread[0] = ctx[0]->get_thread_id();
  w->ctx_thread[1] = ctx[1]->get_thread_id();
  using S = decltype(ctx[0]->get_scheduler());
  arena_box<unifex::nothrow_async_pass<long>> pass;
  pass.construct();

  auto finish_wait = [](OpRec* r, volatile int* other_done) {
    // wait for completion; if the counterpart has no more rounds, cancel (it may still lose to a late rendezvous)
    struct P { OpRec* r; volatile int* od; static int pred(void* p) { auto* q = (P*)p; return q->r->flag || *q->od; } } p{r, other_done};
    usim_wait(&P::pred, &p);
    if (!r->flag) {
      if (!r->stop_begin) r->request_stop();
      r->wait();
    }
  };

  std::thread caller([w, &pass, &ctx, finish_wait] {
    for (int i = 0; i < w->ncall; ++i) {
      yields(w->cpre[i]);
      if (w->ckind[i]) {
        bool parked = pass->is_expecting_call();
        long v = w->payload[i];
        bool ok = pass->try_call(std::move(v));
        { usim::np_scope np; w->try_call_ok[i] = ok; if (ok) usim_probe("try_call succeeded"); (void)parked; }
        continue;
      }
      auto snd = pass->async_call(w->payload[i]);
      started_op<S, decltype(snd)> op;
      op.start(&w->call[i], ctx[0]->get_scheduler(), std::move(snd));
      finish_wait(&w->call[i], &w->acceptor_done);
      op.destroy();
    }
    w->caller_done = 1;
  });
  std::thread acceptor([w, &pass, &ctx, finish_wait] {
    for (int i = 0; i < w->nacc; ++i) {
      yields(w->apre[i]);
      if (w->akind[i]) {
        auto r = pass->try_accept();
        usim::np_scope np;
        w->try_acc_ok[i] = r.has_value();
        if (r) { w->accepted[w->naccepted++] = std::get<0>(*r); usim_probe("try_accept succeeded"); }
        continue;
      }
      auto snd = pass->async_accept();
      started_op<S, decltype(snd)> op;
      op.start(&w->acc[i], ctx[1]->get_scheduler(), std::move(snd));
      finish_wait(&w->acc[i], &w->caller_done);
      { usim::np_scope np; if (w->acc[i].channel == CH_VALUE) w->accepted[w->naccepted++] = w->acc[i].value; }
      op.destroy();
    }
    w->acceptor_done = 1;
  });
  std::thread stopper([w] {
    for (int i = 0; i < 6; ++i) {
      for (int side = 0; side < 2; ++side) {
        OpRec& r = side ? w->acc[i] : w->call[i];
        int m = side ? w->astopm[i] : w->cstopm[i];
        int n = side ? w->nacc : w->ncall;
        int kind = side ? w->akind[i] : w->ckind[i];
        if (i >= n || kind || m != 2) continue;
        struct P { OpRec* r; volatile int* fin; static int pred(void* p) { auto* q = (P*)p; return q->r->start_begin != 0 || *q->fin; } };
        P p{&r, side ? &w->acceptor_done : &w->caller_done};
        usim_wait(&P::pred, &p);
        if (!r.start_begin) continue;
        yields(side ? w->astopy[i] : w->cstopy[i]);
        bool go;
        { usim::np_scope np; go = !r.stop_begin; if (go) r.stop_begin = seq(); }
        if (go) { r.stop->request_stop(); usim::np_scope np; r.stop_end = seq(); }
      }
    }
  });
  caller.join();
  acceptor.join();
  stopper.join();
  {
    usim::np_scope np;
    // each call that completed with value (or successful try_call) delivered its payload to exactly one accept
    long sent[12]; int nsent = 0;
    for (int i = 0; i < w->ncall; ++i) {
      if (w->ckind[i]) { if (w->try_call_ok[i]) sent[nsent++] = w->payload[i]; continue; }
      OpRec& r = w->call[i];
      KIT_CHECK(r.completions == 1, "c16.wait-lost", "async_call %d never completed", i);
      KIT_CHECK(r.channel != CH_ERROR, "c16.pass-pairing", "async_call %d completed with error", i);
      if (r.channel == CH_VALUE) sent[nsent++] = w->payload[i];
      else KIT_CHECK(r.stop_begin != 0, "c16.pass-pairing", "async_call %d completed with done without a stop request", i);
      if (r.channel == CH_VALUE)
        KIT_CHECK(r.done_thread == w->ctx_thread[0], "c16.context", "async_call %d completed on T%d, not on the caller's scheduler", i, r.done_tid);
    }
    for (int i = 0; i < w->nacc; ++i) {
      if (w->akind[i]) continue;
      OpRec& r = w->acc[i];
      KIT_CHECK(r.completions == 1, "c16.wait-lost", "async_accept %d never completed", i);
      KIT_CHECK(r.channel != CH_ERROR, "c16.pass-pairing", "async_accept %d completed with error", i);
      if (r.channel == CH_DONE) KIT_CHECK(r.stop_begin != 0, "c16.pass-pairing", "async_accept %d completed with done without a stop request", i);
      if (r.channel == CH_VALUE)
        KIT_CHECK(r.done_thread == w->ctx_thread[1], "c16.context", "async_accept %d completed on T%d, not on the acceptor's scheduler", i, r.done_tid);
    }
    KIT_CHECK(nsent == w->naccepted, "c16.pass-pairing", "%d calls completed with value but %d accepts received a payload", nsent, w->naccepted);
    for (int k = 0; k < nsent; ++k)
      KIT_CHECK(sent[k] == w->accepted[k], "c16.pass-pairing", "rendezvous %d: call sent payload %ld but the accept received %ld", k, sent[k], w->accepted[k]);
    if (nsent) usim_probe("rendezvous completed");
    KIT_CHECK(pass->is_idle(), "c16.pass-pairing", "async_pass not idle after every operation completed");
  }
  pass.destroy();
  ctx[0].destroy();
  ctx[1].destroy();
  { usim::np_scope np; delete w; }
}
#else
void body_pass(void*) {}
#endif

}  // namespace

int main(int argc, char** argv) {
  static const usim_workload table[] = {{"event_v1", body_v1}, {"event_v2", body_v2}, {"event_auto", body_auto}, {"pass", body_pass}};
  return usim_main(argc, argv, table, 4);
}
