// w_bulk — C17: bulk operations visit each index once before completing; find_if is exact.
// Real code: bulk_schedule / bulk_transform / bulk_join, find_if (seq and par), on inline,
// single_thread_context and static_thread_pool schedulers. See DESIGN.md §8 C17.
#include <kit/base.hpp>
#include <kit/recv.hpp>

#include <unifex/bulk_join.hpp>
#include <unifex/bulk_schedule.hpp>
#include <unifex/bulk_transform.hpp>
#include <unifex/execution_policy.hpp>
#include <unifex/find_if.hpp>
#include <unifex/get_execution_policy.hpp>
#include <unifex/get_stop_token.hpp>
#include <unifex/inline_scheduler.hpp>
#include <unifex/just.hpp>
#include <unifex/single_thread_context.hpp>
#include <unifex/static_thread_pool.hpp>
#include <unifex/then.hpp>

#include <algorithm>

using namespace kit;

namespace {

constexpr int kMaxN = 1200;

// A user scheduler that customises bulk_schedule and really runs set_next concurrently (the library's own
// schedulers all use the default, sequential bulk_schedule): 2-3 worker threads claim indices in
// iteration-space order and test the stop token before every claim, so that a stop request cancels later
// indices only (the assumption find_if(par) documents). Sequential under seq/unseq policies.
struct par_sched {
  int workers = 2;
  struct schedule_sender {
    template <template <class...> class V, template <class...> class T> using value_types = V<T<>>;
    template <template <class...> class V> using error_types = V<std::exception_ptr>;
    static constexpr bool sends_done = false;
    template <class R> struct op { R r; void start() noexcept { unifex::set_value(std::move(r)); } };
    template <class R> op<unifex::remove_cvref_t<R>> connect(R&& r) const { return {(R &&) r}; }
  };
  schedule_sender schedule() const noexcept { return {}; }
  friend bool operator==(par_sched, par_sched) noexcept { return true; }
  friend bool operator!=(par_sched, par_sched) noexcept { return false; }

  template <class Integral>
  struct bulk_sender {
    template <template <class...> class V, template <class...> class T> using value_types = V<T<>>;
    template <template <class...> class V, template <class...> class T> using next_types = V<T<Integral>>;
    template <template <class...> class V> using error_types = V<std::exception_ptr>;
    static constexpr bool sends_done = true;
    Integral count;
    int workers;
    template <class R>
    struct op {
      Integral count;
      int workers;
      R r;
      Integral next{0};
      bool cancelled = false;
      void start() noexcept {
        using policy_t = unifex::remove_cvref_t<decltype(unifex::get_execution_policy(r))>;
        constexpr bool par = unifex::is_one_of_v<policy_t, unifex::parallel_policy, unifex::parallel_unsequenced_policy>;
        auto tok = unifex::get_stop_token(r);
        auto work = [this, tok] {
          for (;;) {
            if (tok.stop_requested()) { usim::np_scope np; if (next < count) cancelled = true; return; }
            Integral i;
            { usim::np_scope np; if (next >= count) return; i = next++; }
            unifex::set_next(r, Integral(i));
          }
        };
        if constexpr (par) {
          std::thread th[3];
          for (int k = 0; k < workers; ++k) th[k] = std::thread(work);
          for (int k = 0; k < workers; ++k) th[k].join();
        } else {
          work();
        }
        if (cancelled) unifex::set_done(std::move(r)); else unifex::set_value(std::move(r));
      }
    };
    template <class R> op<unifex::remove_cvref_t<R>> connect(R&& r) const { return {count, workers, (R &&) r}; }
  };
  template <class Integral>
  friend bulk_sender<Integral> tag_invoke(unifex::tag_t<unifex::bulk_schedule>, par_sched s, Integral n) noexcept { return {n, s.workers}; }
};

struct BWorld {
  int n = 0;
  int policy = 0;   // 0 seq, 1 par, 2 unseq, 3 par_unseq
  int sched = 0;    // 0 inline, 1 single_thread_context, 2 static_thread_pool, 3 harness parallel bulk scheduler
  int stop_mode = 0;  // 0 none, 1 before start, 2 from inside index k, 3 from another thread
  int stop_at = 0, stop_yields = 0;
  int visits[kMaxN];
  int total = 0;
  uint64_t last_visit_seq = 0;
  bool terminal = false;
  int in_flight = 0, max_in_flight = 0;
  int throw_at = -1;   // param bthrow=1: the per-element function throws at this index (library bulk_schedule only)
  bool threw = false;
  OpRec rec;
  unifex::inplace_stop_source stop;
};

void visit(BWorld* w, size_t i) {
  bool fire = false;
  {
    usim::np_scope np;
    KIT_CHECK((int)i < w->n, "c17.index-count", "set_next called with index %zu >= n=%d", i, w->n);
    KIT_CHECK(!w->terminal, "c17.after-terminal", "set_next(%zu) after the terminal signal", i);
    w->visits[i]++;
    KIT_CHECK(w->visits[i] == 1, "c17.index-count", "index %zu visited %d times", i, w->visits[i]);
    w->total++;
    w->last_visit_seq = seq();
    w->in_flight++;
    if (w->in_flight > w->max_in_flight) w->max_in_flight = w->in_flight;
    if (w->stop_mode == 2 && (int)i == w->stop_at && !w->rec.stop_begin) fire = true;
  }
  if (fire) w->rec.request_stop();
  usim_point();
  {
    usim::np_scope np;
    w->in_flight--;
  }
}

void bulk_hook(OpRec*, void* arg) {
  BWorld* w = (BWorld*)arg;
  usim::np_scope np;
  w->terminal = true;
  KIT_CHECK(w->in_flight == 0, "c17.after-terminal", "terminal signal delivered while %d set_next calls are still running", w->in_flight);
}

struct bulk_throw { long code; };
template <class Sched, class Policy, class Fn>
void run_bulk_fn(BWorld* w, Sched sched, Policy pol, Fn fn);
template <class Sched, class Policy>
void run_bulk(BWorld* w, Sched sched, Policy pol) {
  if constexpr (!std::is_same_v<Sched, par_sched>) {
    if (w->throw_at >= 0) {
      // a per-element function that may throw: set_next is not noexcept, the exception unwinds to the scheduler's operation, which answers set_error
      run_bulk_fn(w, sched, pol, [w](size_t i) {
        visit(w, i);
        if ((int)i == w->throw_at) { { usim::np_scope np; w->threw = true; } throw bulk_throw{(long)i}; }
      });
      return;
    }
  }
  run_bulk_fn(w, sched, pol, [w](size_t i) noexcept { visit(w, i); });
}
template <class Sched, class Policy, class Fn>
void run_bulk_fn(BWorld* w, Sched sched, Policy pol, Fn fn) {
  auto snd = unifex::bulk_join(unifex::bulk_transform(unifex::bulk_schedule(sched, (size_t)w->n), std::move(fn), pol));
  started_op<Sched, decltype(snd)> op;
  if (w->stop_mode == 1) w->rec.request_stop();
  std::thread stopper([w] {
    if (w->stop_mode != 3) return;
    struct P { OpRec* r; static int pred(void* p) { return ((P*)p)->r->start_begin != 0; } } p{&w->rec};
    usim_wait(&P::pred, &p);
    yields(w->stop_yields);
    w->rec.request_stop();
  });
  op.start(&w->rec, sched, std::move(snd));
  w->rec.wait();
  stopper.join();
  op.destroy();
}

template <class Sched>
void run_bulk_policy(BWorld* w, Sched sched) {
  switch (w->policy) {
    case 0: run_bulk(w, sched, unifex::seq); break;
    case 1: run_bulk(w, sched, unifex::par); break;
    case 2: run_bulk(w, sched, unifex::unseq); break;
    default: run_bulk(w, sched, unifex::par_unseq); break;
  }
}

int pick_n() {
  static const int special[] = {0, 1, 2, 15, 16, 17, 31, 32, 33, 47, 48, 49, 64, 100};
  int r = draw(4);
  if (r < 2) return special[draw((int)(sizeof special / sizeof special[0]))];
  if (r < 3) return draw(130);
  return 100 + draw(1000);
}

void body_bulk(void*) {
  BWorld* w;
  { usim::np_scope np; w = new BWorld(); memset(w->visits, 0, sizeof w->visits); }
  w->n = pick_n();
  w->policy = draw(4);
  w->sched = draw(usim_param_int("parsched", 0) ? 5 : 3);
  if (w->sched > 3) w->sched = 3;
  int sm = draw(8);
  w->stop_mode = sm < 3 ? 0 : sm < 4 ? 1 : sm < 7 ? 2 : 3;
  w->stop_at = w->n ? draw(w->n) : 0;
  if (w->stop_mode == 2 && w->n && draw(2)) {
    // bias to the last cancellation chunk and to chunk boundaries
    int last_chunk = (w->n - 1) / 16 * 16;
    w->stop_at = last_chunk + draw(w->n - last_chunk);
  }
  w->stop_yields = draw_small(40);
  if (usim_param_int("bthrow", 0) && w->sched <= 2 && w->n > 0 && draw(2) == 0) w->throw_at = draw(w->n);
  w->rec.what = "bulk";
  w->rec.oracle_double = "c17.after-terminal";
  w->rec.stop = &w->stop;
  w->rec.hook = &bulk_hook;
  w->rec.hook_arg = w;
  usim_sample("bulk: n=%d policy=%d sched=%d stop_mode=%d stop_at=%d", w->n, w->policy, w->sched, w->stop_mode, w->stop_at);
  if (w->sched == 0) run_bulk_policy(w, unifex::inline_scheduler{});
  else if (w->sched == 1) {
    arena_box<unifex::single_thread_context> ctx;
    ctx.construct();
    run_bulk_policy(w, ctx->get_scheduler());
    ctx.destroy();
  } else if (w->sched == 2) {
    arena_box<unifex::static_thread_pool> pool;
    pool.construct(2u);
    run_bulk_policy(w, pool->get_scheduler());
    pool.destroy();
  } else {
    run_bulk_policy(w, par_sched{2 + draw(2)});
  }
  {
    usim::np_scope np;
    OpRec& r = w->rec;
    KIT_CHECK(r.completions == 1, "c17.after-terminal", "bulk operation completed %d times", r.completions);
    if (w->threw) {
      KIT_CHECK(r.channel == CH_ERROR, "c17.throw-outcome", "the per-element function threw at index %d but the bulk operation completed with %s", w->throw_at, ch_name(r.channel));
      usim_probe("throwing element function: error delivered");
    } else KIT_CHECK(r.channel != CH_ERROR, "c17.partial-without-stop", "bulk operation completed with an error");
    if (r.channel == CH_ERROR) {
    } else if (r.channel == CH_VALUE) {
      KIT_CHECK(w->total == w->n, "c17.partial-without-stop", "bulk operation completed with value after visiting only %d of %d indices", w->total, w->n);
      usim_probe("all indices visited");
    } else {
      KIT_CHECK(r.stop_begin != 0, "c17.partial-without-stop", "bulk operation completed with done although stop was never requested");
      usim_probe(w->total == w->n ? "done after a full visit" : "cancelled part-way");
    }
    KIT_CHECK(w->last_visit_seq < r.done_seq || w->total == 0, "c17.after-terminal", "an index was visited after the terminal signal");
    bool par_allowed = w->policy == 1 || w->policy == 3;
    if (!par_allowed) KIT_CHECK(w->max_in_flight <= 1, "c17.concurrent", "set_next calls overlapped (%d at once) under a non-parallel policy", w->max_in_flight);
  }
  { usim::np_scope np; delete w; }
}

// ------------------------------------------------------------------ find_if
struct FWorld {
  int n = 0;
  int* data = nullptr;
  int needle = 7;
  int policy = 0;
  int sched = 0;
  int pred_calls = 0;
  OpRec rec;
  unifex::inplace_stop_source stop;
  long result_index = -2;
};

template <class Sched, class Policy>
void run_find(FWorld* w, Sched sched, Policy pol) {
  int* b = w->data;
  int* e = w->data + w->n;
  auto snd = unifex::then(
      unifex::find_if(unifex::just(b, e), [w, b, e](const int& v) noexcept {
        {
          usim::np_scope np;
          w->pred_calls++;
          KIT_CHECK(&v >= b && &v < e, "c17.pred-out-of-range", "predicate evaluated on an element %ld positions outside the range of %d elements", (long)(&v - b), w->n);
        }
        return v == w->needle;
      }, pol),
      [b](int* it) noexcept { return (long)(it - b); });
  started_op<Sched, decltype(snd)> op;
  op.start(&w->rec, sched, std::move(snd));
  w->rec.wait();
  op.destroy();
}

void body_find(void*) {
  FWorld* w;
  { usim::np_scope np; w = new FWorld(); }
  int r = draw(5);
  w->n = r < 2 ? pick_n() : r < 3 ? 120 + draw(900) : draw(200);
  w->policy = draw(2);  // 0 seq, 1 par
  w->sched = draw(usim_param_int("parsched", 0) ? 5 : 3);
  if (w->sched > 3) w->sched = 3;
  // an arena block of exactly n ints: dereferencing anything outside trips the red zones
  w->data = (int*)usim_alloc((size_t)(w->n ? w->n : 1) * sizeof(int));
  for (int i = 0; i < w->n; ++i) w->data[i] = 1000 + i;
  int nmatch = draw(4);  // 0 none, 1 one, 2 first, 3 several
  int first = -1;
  if (w->n) {
    if (nmatch == 1) { first = draw(w->n); w->data[first] = w->needle; }
    else if (nmatch == 2) { first = 0; w->data[0] = w->needle; if (draw(2)) w->data[w->n - 1] = w->needle; }
    else if (nmatch == 3) { for (int k = 0; k < 3; ++k) { int p = draw(w->n); w->data[p] = w->needle; } for (int i = 0; i < w->n; ++i) if (w->data[i] == w->needle) { first = i; break; } }
  }
  w->rec.what = "find_if";
  w->rec.oracle_double = "c17.find-result";
  w->rec.stop = &w->stop;
  usim_sample("find_if: n=%d policy=%s sched=%d first_match=%d", w->n, w->policy ? "par" : "seq", w->sched, first);
  auto go = [&](auto sched) { if (w->policy) run_find(w, sched, unifex::par); else run_find(w, sched, unifex::seq); };
  if (w->sched == 0) go(unifex::inline_scheduler{});
  else if (w->sched == 1) { arena_box<unifex::single_thread_context> ctx; ctx.construct(); go(ctx->get_scheduler()); ctx.destroy(); }
  else if (w->sched == 2) { arena_box<unifex::static_thread_pool> pool; pool.construct(2u); go(pool->get_scheduler()); pool.destroy(); }
  else go(par_sched{2 + draw(2)});
  {
    usim::np_scope np;
    long expect = first < 0 ? w->n : first;
    KIT_CHECK(w->rec.completions == 1 && w->rec.channel == CH_VALUE, "c17.find-result", "find_if completed %d times with %s", w->rec.completions, ch_name(w->rec.channel));
    KIT_CHECK(w->rec.value == expect, "c17.find-result", "find_if over %d elements returned position %ld, std::find_if gives %ld", w->n, w->rec.value, expect);
    if (first >= 0) usim_probe("match found"); else usim_probe("no match: end iterator");
  }
  usim_free(w->data);
  { usim::np_scope np; delete w; }
}

}  // namespace

int main(int argc, char** argv) {
  static const usim_workload table[] = {{"bulk", body_bulk}, {"find_if", body_find}};
  return usim_main(argc, argv, table, 2);
}
