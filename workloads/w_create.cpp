// w_create — C19: create_basic_sender (safe and unsafe callbacks, fallbacks, opaque callbacks,
// stop event, early cancellation) — C++20 only.
// One operation per run. Its body hands callbacks out to 1-3 "event source" threads when the start
// event runs; the sources fire them (once or twice, possibly late), a stopper thread requests stop
// (before start, during start, racing the sources); the harness destroys the operation state as
// soon as the receiver has been completed, so that anything the library does afterwards with the
// operation (a late safe callback locking its mutex, say) is a shadow-memory hit.
#include <kit/base.hpp>
#include <kit/items.hpp>
#include <kit/recv.hpp>

#include <unifex/create_basic_sender.hpp>
#include <unifex/inline_scheduler.hpp>

#include <functional>
#include <mutex>
#include <optional>

using namespace kit;

namespace wcreate {  // (named: the library's template instantiations over these types keep external names for site reports)

constexpr int kMaxSrc = 3;

struct World;
struct Source {
  int kind = 0;       // 0 safe, 1 safe+fallback, 2 safe opaque, 3 unsafe, 4 unsafe opaque
  bool errback = false;
  int fires = 1;
  int pre = 0, between = 0;
  bool late = false;  // fires only after the operation has completed (safe kinds only)
  // filled by the body's start event
  std::function<void(int)> fn;
  std::optional<unifex::basic_sender_opaque_callback<int>> opaque_safe;
  void* raw_arg = nullptr;
  void (*raw_fn)(void*, int) = nullptr;
  // observations
  int fired = 0;
};

struct World {
  OpRec rec;
  unifex::inplace_stop_source stop;
  int variant = 0;      // 0 default lock, sends_done; 1 sends_done=false; 2 context + lock factory on the context
  int start_mode = 0;   // 0 hand out callbacks; 1 complete with value inside start; 2 complete with error inside start;
                        // 3 hand out callbacks and invoke the first one re-entrantly inside start
  int complete_on = 1;  // the k-th callback event completes with its argument
  int stop_action = 0;  // 0 set_done, 1 ignore, 2 set_error
  int stop_mode = 0;    // 0 none, 1 before start, 2 racing (after yields), 3 right after start returned,
                        // 4 from inside the start handler, 5 from inside the first callback handler (re-entrant stop)
  int stop_yields = 0;
  int nsrc = 1;
  Source src[kMaxSrc];
  volatile int armed = 0;
  // body observations (all under np)
  int body_owner = -1, body_depth = 0;
  int start_events = 0, stop_events = 0, cb_events = 0, err_events = 0, fallback_calls = 0;
  int first_channel = CH_NONE;
  long first_value = 0;
  bool body_finished = false;  // the body has called a set_* function
  bool unsafe_used = false;
  volatile bool destroyed = false;
  volatile int inflight = 0;   // threads currently inside a callback invocation
  bool quiet_late = false;     // race=0: late sources also wait until no other callback invocation is in flight
};

struct BodyScope {
  World* w;
  explicit BodyScope(World* w_, const char* what) : w(w_) {
    usim::np_scope np;
    int me = usim_here();
    KIT_CHECK(w->body_owner == -1 || w->body_owner == me, "c19.body-concurrent",
              "the %s event runs on T%d while T%d is inside another event of the same operation (the lock does not exclude them)", what, me, w->body_owner);
    KIT_CHECK(w->rec.completions == 0, "c19.touch-after-winner", "the %s event ran after the receiver had been completed", what);
    w->body_owner = me;
    ++w->body_depth;
    KIT_TRACE("event %s", what);
  }
  ~BodyScope() {
    usim::np_scope np;
    if (--w->body_depth == 0) w->body_owner = -1;
  }
};

template <class Op>
void note_first(World* w, int ch, long v) {
  usim::np_scope np;
  if (!w->body_finished) { w->body_finished = true; w->first_channel = ch; w->first_value = v; }
}

struct Body {
  World* w;
  template <class Op>
  void start(Op& op) noexcept {
    BodyScope sc(w, "start");
    { usim::np_scope np; ++w->start_events; KIT_CHECK(w->start_events == 1, "c19.start-twice", "start event ran %d times", w->start_events); }
    if (w->start_mode == 1) { note_first<Op>(w, CH_VALUE, 100); op.set_value(100); return; }
    if (w->start_mode == 2) { note_first<Op>(w, CH_ERROR, 0); op.set_error(std::make_exception_ptr(7)); return; }
    for (int i = 0; i < w->nsrc; ++i) {
      Source& s = w->src[i];
      World* ww = w;
      switch (s.kind) {
        case 0:
          if (s.errback) s.fn = safe_errback<int>(op); else s.fn = safe_callback<int>(op);
          break;
        case 1: {
          auto fb = [ww](int) noexcept { usim::np_scope np; ++ww->fallback_calls; };
          if (s.errback) s.fn = safe_errback<int>(op, fb); else s.fn = safe_callback<int>(op, fb);
          break;
        }
        case 2:
          s.opaque_safe.emplace(safe_callback<int>(op).opaque());
          break;
        case 3:
          s.fn = unsafe_callback<int>(op);
          break;
        default: {
          auto pr = unsafe_callback<int>(op).opaque();
          s.raw_arg = pr.first;
          s.raw_fn = pr.second;
          break;
        }
      }
    }
    w->armed = 1;
    if (w->stop_mode == 4) { usim_probe("stop requested from inside the start handler"); w->rec.request_stop(); }
    if (w->start_mode == 3 && w->src[0].kind <= 1) {
      // an event source that calls back synchronously from inside start()
      { usim::np_scope np; ++w->src[0].fired; }
      w->src[0].fn(500);
    }
  }
  template <class Op>
  void callback(Op& op, int v) noexcept {
    BodyScope sc(w, "callback");
    bool fin;
    int n;
    { usim::np_scope np; n = ++w->cb_events; fin = w->body_finished; }
    KIT_CHECK(!fin, "c19.touch-after-winner", "callback event %d delivered although the body had already completed the operation", n);
    if (w->stop_mode == 5 && n == 1) { usim_probe("stop requested from inside a callback handler"); w->rec.request_stop(); }
    if (n >= w->complete_on) { note_first<Op>(w, CH_VALUE, v); op.set_value(v); }
  }
  template <class Op>
  void errback(Op& op, int v) noexcept {
    BodyScope sc(w, "errback");
    bool fin;
    { usim::np_scope np; ++w->err_events; fin = w->body_finished; }
    KIT_CHECK(!fin, "c19.touch-after-winner", "errback event delivered although the body had already completed the operation");
    note_first<Op>(w, CH_ERROR, v);
    op.set_error(std::make_exception_ptr(v));
  }
  template <class Op>
  void stop(Op& op) noexcept {
    BodyScope sc(w, "stop");
    {
      usim::np_scope np;
      ++w->stop_events;
      KIT_CHECK(w->stop_events == 1, "c19.stop-hook-twice", "stop event ran %d times", w->stop_events);
      KIT_CHECK(w->start_events == 1, "c19.stop-hook-not-started", "stop event ran although the start event never did");
      KIT_CHECK(!w->body_finished, "c19.stop-hook-after-completion", "stop event ran after the body had completed the operation");
      KIT_CHECK(w->rec.stop_begin != 0, "c19.stop-hook-unrequested", "stop event ran although stop was never requested");
    }
    if constexpr (requires { op.set_done(); }) {
      if (w->stop_action == 0) { note_first<Op>(w, CH_DONE, 0); op.set_done(); }
    }
    if (w->stop_action == 2) { note_first<Op>(w, CH_ERROR, 9); op.set_error(std::make_exception_ptr(9)); }
  }
};

struct Ctx {
  std::recursive_mutex mtx;
  World* w = nullptr;
  explicit Ctx(World* w_) : w(w_) {}
};
struct CtxFactory {
  World* w;
  Ctx operator()() const noexcept { return Ctx{w}; }
};
// user-provided lock factory (variant 2): the library hands it the operation's own context
World* g_world = nullptr;  // (the factory object itself lives inside the operation: it cannot carry the pointer)
struct CtxLockFactory {
  auto operator()(Ctx& c) const noexcept {
    {
      usim::np_scope np;
      World* w = g_world;
      KIT_CHECK(!w->destroyed, "c19.touch-after-winner",
                "the lock factory was invoked with the context of an operation that has already completed and been destroyed (T%d entered the library before the completion and locks after it)", usim_here());
    }
    return std::lock_guard<std::recursive_mutex>{c.mtx};
  }
};

void fire(World* w, Source& s, int v) {
  { usim::np_scope np; ++s.fired; }
  KIT_TRACE("fire kind=%d v=%d", s.kind, v);
  { usim::np_scope np; w->inflight = w->inflight + 1; }
  if (s.kind == 2) { auto fn = s.opaque_safe->callback(); fn(s.opaque_safe->context(), v); }
  else if (s.kind == 4) s.raw_fn(s.raw_arg, v);
  else s.fn(v);
  { usim::np_scope np; w->inflight = w->inflight - 1; }
}

template <class Sender>
void drive(World* w, Sender&& snd) {
  using S = unifex::inline_scheduler;
  started_op<S, std::remove_cvref_t<Sender>> op;
  std::thread thr[kMaxSrc + 1];
  int nt = 0;
  for (int i = 0; i < w->nsrc; ++i)
    thr[nt++] = std::thread([w, i] {
      Source& s = w->src[i];
      struct P { World* w; static int pred(void* p) { auto* q = (P*)p; return q->w->armed || q->w->rec.flag; } } p{w};
      usim_wait(&P::pred, &p);
      if (!w->armed) return;  // the start event never ran (early cancellation / synchronous completion)
      if (s.late) {
        w->rec.wait();
        if (w->quiet_late) {
          struct Q { World* w; static int pred(void* p) { return ((Q*)p)->w->inflight == 0; } } q{w};
          usim_wait(&Q::pred, &q);
        }
        yields(s.pre);
      }
      else yields(s.pre);
      for (int k = 0; k < s.fires; ++k) {
        if (k == 0 && i == 0 && w->start_mode == 3 && s.kind <= 1) continue;  // already fired inside start
        fire(w, s, 1000 + i * 10 + k);
        yields(s.between);
      }
    });
  if (w->stop_mode == 2)
    thr[nt++] = std::thread([w] {
      struct P { World* w; static int pred(void* p) { auto* q = (P*)p; return q->w->rec.start_begin != 0; } } p{w};
      usim_wait(&P::pred, &p);
      yields(w->stop_yields);
      w->rec.request_stop();
    });
  if (w->stop_mode == 1) w->rec.request_stop();
  op.start(&w->rec, S{}, (Sender &&) snd);
  if (w->stop_mode == 3) w->rec.request_stop();
  w->rec.wait();
  w->destroyed = true;
  KIT_TRACE("harness destroys the operation state");
  op.destroy();  // the operation state is gone: nothing may touch it from here on
  for (int i = 0; i < nt; ++i) thr[i].join();
  // callbacks are destroyed only now (their holders must not keep anything of the operation alive that matters)
  for (int i = 0; i < w->nsrc; ++i) { w->src[i].fn = nullptr; w->src[i].opaque_safe.reset(); }
}

void body_create(void*) {
  World* w;
  { usim::np_scope np; w = new World(); g_world = w; }
  w->rec.what = "create_basic_sender";
  w->rec.oracle_double = "c19.double";
  w->rec.stop = &w->stop;
  w->variant = draw(4) == 0 ? 1 : draw(3) == 0 ? 2 : 0;
  int sm = draw(8);
  w->start_mode = sm < 5 ? 0 : sm < 6 ? 1 : sm < 7 ? 2 : 3;
  w->nsrc = draw_range(1, kMaxSrc);
  bool unsafe = draw(5) == 0;
  int total_cb_fires = 0;
  for (int i = 0; i < w->nsrc; ++i) {
    Source& s = w->src[i];
    s.kind = draw(3);
    s.errback = s.kind != 2 && draw(5) == 0;
    s.fires = draw_range(1, 2);
    s.pre = draw_small(10);
    s.between = draw_small(6);
    s.late = draw(5) == 0;
    if (!s.errback && !s.late) total_cb_fires += s.fires;
  }
  w->stop_action = draw(4) == 0 ? 1 : draw(5) == 0 ? 2 : 0;
  int st = draw(11);
  w->stop_mode = st < 2 ? 0 : st < 3 ? 1 : st < 7 ? 2 : st < 8 ? 3 : st < 10 ? 4 : 5;
  w->stop_yields = draw_small(14);
  if (unsafe) {
    // contract of unsafe callbacks: never invoked once the operation has completed. One source, one shot,
    // and nothing else may complete the operation first.
    w->unsafe_used = true;
    w->nsrc = 1;
    w->src[0].kind = 3 + draw(2);
    w->src[0].errback = false;
    w->src[0].fires = 1;
    w->src[0].late = false;
    w->stop_action = 1;
    if (w->start_mode != 0) w->start_mode = 0;
    if (w->stop_mode == 1) w->stop_mode = 2;  // (stop before start completes with done before anything is handed out: also fine, but then nothing is tested)
    total_cb_fires = 1;
  }
  bool stop_completes = false;
  if (usim_param_int("race", 1) == 0) {
    // no callback or stop request may be in flight while another one completes the operation: one live source
    // (the others fire only after the completion), stop only before start
    w->quiet_late = true;
    for (int i = 1; i < w->nsrc; ++i) w->src[i].late = true;
    w->src[0].late = false;
    w->src[0].errback = false;
    total_cb_fires = w->src[0].fires;
    if (w->stop_mode == 2) w->stop_mode = 0;
    if (w->stop_mode == 3 && !unsafe && w->variant != 1 && w->start_mode == 0) {
      // the stop request (after start() returned) is the only thing that completes the operation
      stop_completes = true;
      if (w->stop_action == 1) w->stop_action = 0;
      w->src[0].late = true;
      total_cb_fires = 1;
    } else if (w->stop_mode == 3) w->stop_mode = 0;
    if (w->stop_mode == 4 && w->stop_action != 1 && w->variant != 1 && w->start_mode != 1 && w->start_mode != 2) {
      // the stop requested from inside the start handler completes the operation: nobody else may be in flight
      stop_completes = true;
      w->src[0].late = true;
      if (w->start_mode == 3) w->start_mode = 0;
      total_cb_fires = 1;
    }
    if (w->src[0].fires == 2 && (draw(2) || w->start_mode == 3)) { w->src[0].fires = 1; total_cb_fires = 1; }
  }
  if (w->start_mode == 3 && w->src[0].kind > 1) w->start_mode = 0;
  if (w->start_mode == 3) { w->src[0].late = false; if (!w->src[0].errback) total_cb_fires = total_cb_fires ? total_cb_fires : 1; }
  // liveness is the harness's job: some non-late callback source must be able to complete the operation
  if (total_cb_fires == 0 && !stop_completes) { w->src[0].errback = false; w->src[0].late = false; total_cb_fires = w->src[0].fires; }
  w->complete_on = draw_range(1, total_cb_fires);
  if (draw(3) == 0) usim_fault_rate(USIM_F_CAS_WEAK, 100);
  usim_sample("create: variant=%d start_mode=%d nsrc=%d kinds=%d%d%d complete_on=%d stop_action=%d stop_mode=%d unsafe=%d", w->variant, w->start_mode, w->nsrc,
              w->src[0].kind, w->src[1].kind, w->src[2].kind, w->complete_on, w->stop_action, w->stop_mode, (int)unsafe);

  using L = unifex::_make_traits::sender_traits_literal;
  if (w->variant == 0) {
    drive(w, unifex::create_basic_sender<int>(Body{w}));
  } else if (w->variant == 1) {
    drive(w, unifex::create_basic_sender<int>(Body{w}, unifex::with_sender_traits<L{.sends_done = false}>));
  } else {
    drive(w, unifex::create_basic_sender<int>(
                 Body{w}, CtxFactory{w}, CtxLockFactory{}));
  }

  {
    usim::np_scope np;
    OpRec& r = w->rec;
    KIT_CHECK(r.completions == 1, "c19.lost", "operation never completed");
    if (w->start_events == 0) {
      // early cancellation: the library completes with done itself, no event ever ran
      KIT_CHECK(r.channel == CH_DONE && r.stop_begin != 0 && w->variant != 1, "c19.outcome", "the start event never ran but the operation completed with %s", ch_name(r.channel));
      KIT_CHECK(w->stop_events == 0 && w->cb_events == 0 && w->err_events == 0, "c19.stop-hook-not-started", "events ran on an operation whose start event never did");
      usim_probe("early cancellation (stop before start)");
    } else {
      KIT_CHECK(w->body_finished, "c19.outcome", "receiver completed with %s although the body never completed the operation", ch_name(r.channel));
      KIT_CHECK(r.channel == w->first_channel, "c19.outcome", "body completed the operation with %s first, the receiver got %s", ch_name(w->first_channel), ch_name(r.channel));
      if (r.channel == CH_VALUE) KIT_CHECK(r.value == w->first_value, "c19.outcome", "body set value %ld, receiver got %ld", w->first_value, r.value);
    }
    if (w->variant == 1) KIT_CHECK(w->stop_events == 0, "c19.stop-hook-unrequested", "stop event ran on a sender that does not send done");
    // every fire of a source with a fallback ended either in the body or in the fallback
    int fb_fires = 0, fb_kind_events = 0;
    bool only_fb = true;
    for (int i = 0; i < w->nsrc; ++i) {
      if (w->src[i].kind == 1) fb_fires += w->src[i].fired; else only_fb = false;
    }
    (void)fb_kind_events;
    if (only_fb)
      KIT_CHECK(w->cb_events + w->err_events + w->fallback_calls == fb_fires, "c19.fallback", "%d fires of callbacks with a fallback: %d reached the body, %d the fallback",
                fb_fires, w->cb_events + w->err_events, w->fallback_calls);
    else
      KIT_CHECK(w->fallback_calls <= fb_fires, "c19.fallback", "fallback ran %d times for %d fires", w->fallback_calls, fb_fires);
    if (w->stop_events) usim_probe("stop event delivered");
    if (w->fallback_calls) usim_probe("late safe callback went to its fallback");
    if (w->unsafe_used && r.channel == CH_VALUE) usim_probe("completed through an unsafe callback");
    if (r.in_start && w->start_events) usim_probe("completed inside start()");
  }
  { usim::np_scope np; delete w; }
}

}  // namespace wcreate
using namespace wcreate;

int main(int argc, char** argv) {
  static const usim_workload table[] = {{"create", body_create}};
  return usim_main(argc, argv, table, 1);
}
