// w_streamlib — C13 over the library's own stream sources and the adaptors the scripted-source workload
// (w_stream) does not reach: range_stream, single, never_stream, for_each, delay, via_stream,
// typed_via_stream, next_adapt_stream, cleanup_adapt_stream, on_stream, stop_immediately, type_erase,
// take_until(never_stream | range, trigger gate). One pipeline per run; consumer = reduce_stream or
// for_each recording every element; stop before start / after k elements / racing from another thread.
// Oracles: the elements delivered are exactly a prefix of what the adaptor's definition prescribes, in
// order (the whole sequence when nothing cancelled it); the fold equals the fold over those elements;
// value only for the whole sequence, done only after a stop request or trigger; exactly one completion;
// delay: no element before its delay elapsed on the simulated clock; via/typed_via/on_stream: elements
// are delivered on the scheduler's thread.
#include <kit/base.hpp>
#include <kit/gate.hpp>
#include <kit/items.hpp>
#include <kit/recv.hpp>

#include <unifex/adapt_stream.hpp>
#include <unifex/cleanup_adapt_stream.hpp>
#include <unifex/delay.hpp>
#include <unifex/filter_stream.hpp>
#include <unifex/for_each.hpp>
#include <unifex/inline_scheduler.hpp>
#include <unifex/never.hpp>
#include <unifex/next_adapt_stream.hpp>
#include <unifex/on_stream.hpp>
#include <unifex/range_stream.hpp>
#include <unifex/reduce_stream.hpp>
#include <unifex/single.hpp>
#include <unifex/single_thread_context.hpp>
#include <unifex/stop_immediately.hpp>
#include <unifex/take_until.hpp>
#include <unifex/then.hpp>
#include <unifex/timed_single_thread_context.hpp>
#include <unifex/transform_stream.hpp>
#include <unifex/type_erased_stream.hpp>
#include <unifex/typed_via_stream.hpp>
#include <unifex/via_stream.hpp>
#include <unifex/just.hpp>

using namespace kit;

namespace wsl {

constexpr int kMaxElems = 12;

struct W {
  int shape = 0;
  int lo = 0, hi = 0;
  int consumer = 0;   // 0 reduce_stream, 1 for_each
  int stop_mode = 0;  // 0 none, 1 before start, 2 racing, 3 from inside element k
  int stop_elem = 0, stop_yields = 0;
  long got[kMaxElems * 2];
  uint64_t got_now[kMaxElems * 2];
  int got_tid[kMaxElems * 2];
  std::thread::id got_thread[kMaxElems * 2];
  int ngot = 0;
  OpRec rec;
  unifex::inplace_stop_source stop;
  Gate trigger;
  volatile int finished = 0;
  uint64_t start_now = 0;
  int ctx_tid = -1;
  bool trigger_used = false;
};

void note(W* w, long v) {
  bool fire = false;
  {
    usim::np_scope np;
    KIT_CHECK(w->ngot < kMaxElems * 2, "c13.sequence", "more elements delivered than the source can produce");
    w->got[w->ngot] = v;
    w->got_now[w->ngot] = usim_now();
    w->got_tid[w->ngot] = usim_here();
    w->got_thread[w->ngot] = std::this_thread::get_id();
    ++w->ngot;
    usim_trace(0xE2E0 + (uint64_t)v);
    if (w->stop_mode == 3 && w->ngot - 1 == w->stop_elem && !w->rec.stop_begin) fire = true;
  }
  if (fire) w->rec.request_stop();
}

template <class Snd, class Sched>
void run_snd(W* w, Snd snd, Sched sched) {
  started_op<Sched, Snd> op;
  if (w->stop_mode == 1) w->rec.request_stop();
  std::thread stopper([w] {
    if (w->stop_mode != 2) return;
    struct P { OpRec* r; static int pred(void* p) { return ((P*)p)->r->start_begin != 0; } } p{&w->rec};
    usim_wait(&P::pred, &p);
    yields(w->stop_yields);
    w->rec.request_stop();
  });
  gate_opener opener{&w->trigger, 1, &w->finished, 0};
  std::thread opener_thr([w, &opener] {
    // the trigger is opened only after a few elements (or at once when there are none)
    struct P { W* w; static int pred(void* p) { auto* w = ((P*)p)->w; return w->ngot >= w->stop_elem || w->finished || w->hi == w->lo || w->shape == 4 || w->ngot >= w->hi - w->lo; } } p{w};
    usim_wait(&P::pred, &p);
    opener.run();
  });
  { usim::np_scope np; w->start_now = usim_now(); }
  op.start(&w->rec, sched, std::move(snd));
  w->rec.wait();
  stopper.join();
  w->finished = 1;
  opener_thr.join();
  op.destroy();
}

template <class Stream, class Sched>
void consume(W* w, Stream&& stream, Sched sched) {
  if (w->consumer == 0) {
    run_snd(w, unifex::reduce_stream((Stream &&) stream, 0L, [w](long acc, auto v) noexcept { note(w, (long)v); return acc + (long)v; }), sched);
  } else {
    run_snd(w, unifex::then(unifex::for_each((Stream &&) stream, [w](auto v) noexcept { note(w, (long)v); }), [] { return -1L; }), sched);
  }
}

const char* kShape[] = {"range", "transform(range)", "filter(range)", "single(just)", "take_until(never_stream,trigger)", "take_until(range,trigger)",
                        "delay(range)", "via_stream(range)", "typed_via_stream(range)", "on_stream(range)", "next_adapt(range,then)", "cleanup_adapt(range)",
                        "stop_immediately(range)", "type_erase(range)", "stop_immediately(delay(range))"};
constexpr int kNumShapes = (int)(sizeof kShape / sizeof kShape[0]);
constexpr int64_t kDelayNs = 50000;

template <class Sched>
void run_shape(W* w, Sched sched, unifex::timed_single_thread_context* timed) {
  auto range = [w] { return unifex::range_stream{w->lo, w->hi}; };
  auto dbl = [](int v) noexcept { return v * 2 + 1; };
  auto even = [](int v) noexcept { return (v % 2) == 0; };
  switch (w->shape) {
    case 0: consume(w, range(), sched); break;
    case 1: consume(w, unifex::transform_stream(range(), dbl), sched); break;
    case 2: consume(w, unifex::filter_stream(range(), even), sched); break;
    case 3: consume(w, unifex::single(unifex::just(w->lo)), sched); break;
    case 4: consume(w, unifex::take_until(unifex::never_stream{}, unifex::single(unifex::then(gate_sender{&w->trigger}, [](long) noexcept {}))), sched); break;
    case 5: consume(w, unifex::take_until(range(), unifex::single(unifex::then(gate_sender{&w->trigger}, [](long) noexcept {}))), sched); break;
    case 6: consume(w, unifex::delay(range(), timed->get_scheduler(), std::chrono::nanoseconds(kDelayNs)), sched); break;
    case 7: consume(w, unifex::via_stream(sched, range()), sched); break;
    case 8: consume(w, unifex::typed_via_stream(sched, range()), sched); break;
    case 9: consume(w, unifex::on_stream(sched, range()), sched); break;
    case 10: consume(w, unifex::next_adapt_stream(range(), [dbl](auto&& s) { return unifex::then((decltype(s))s, dbl); }), sched); break;
    case 11: consume(w, unifex::cleanup_adapt_stream(range(), [](auto&& s) { return (decltype(s))s; }), sched); break;
    case 12: consume(w, unifex::stop_immediately<int>(range()), sched); break;
    case 13: consume(w, unifex::type_erase<int>(range()), sched); break;
    default: consume(w, unifex::stop_immediately<int>(unifex::delay(range(), timed->get_scheduler(), std::chrono::nanoseconds(kDelayNs))), sched); break;
  }
}

void body(void*) {
  W* w;
  { usim::np_scope np; w = new W(); }
  w->shape = draw(kNumShapes);
  w->lo = draw(5);
  w->hi = w->lo + draw_range(0, 7);
  w->consumer = draw(3) == 0 ? 1 : 0;
  int sm = draw(8);
  w->stop_mode = sm < 4 ? 0 : sm < 5 ? 1 : sm < 7 ? 2 : 3;
  w->stop_elem = draw(4);
  w->stop_yields = draw_small(30);
  bool uses_trigger = w->shape == 4 || w->shape == 5;
  w->trigger_used = uses_trigger;
  w->trigger.id = 100;
  w->trigger.outcome = CH_VALUE;
  w->trigger.mode = 1;
  w->trigger.on_stop = 1;
  w->trigger.no_open = !uses_trigger;
  if (w->shape == 4 && w->stop_mode == 3) w->stop_mode = 2;  // never_stream delivers no element to stop from
  int ctxk = (w->shape >= 7 && w->shape <= 9) ? 1 : draw(2);
  w->rec.what = w->consumer ? "for_each" : "reduce_stream";
  w->rec.oracle_double = "c01.double-signal";
  w->rec.stop = &w->stop;
  if (draw(3) == 0) usim_fault_rate(USIM_F_CAS_WEAK, 100);
  if (draw(4) == 0) usim_fault_rate(USIM_F_CLOCK_JITTER, 200);
  usim_sample("streamlib: %s [%d,%d) consumer=%d stop_mode=%d/%d ctx=%d", kShape[w->shape], w->lo, w->hi, w->consumer, w->stop_mode, w->stop_elem, ctxk);
  arena_box<unifex::timed_single_thread_context> timed;
  bool need_timed = w->shape == 6 || w->shape == 14;
  if (need_timed) timed.construct();
  if (ctxk == 0) run_shape(w, unifex::inline_scheduler{}, timed.p);
  else {
    arena_box<unifex::single_thread_context> ctx;
    ctx.construct();
    { usim::np_scope np; w->ctx_tid = 0; }
    std::thread::id ctid = ctx->get_thread_id();
    run_shape(w, ctx->get_scheduler(), timed.p);
    {
      usim::np_scope np;
      // via_stream / typed_via_stream / on_stream: every element is processed on the scheduler's thread
      if (w->shape >= 7 && w->shape <= 9)
        for (int i = 0; i < w->ngot; ++i) {
          KIT_CHECK(w->got_thread[i] == ctid, "c11.via", "%s: element #%d was delivered on T%d, not on the scheduler's thread", kShape[w->shape], i, w->got_tid[i]);
          usim_probe("element delivered on the stream scheduler's thread");
        }
    }
    ctx.destroy();
  }
  if (need_timed) timed.destroy();
  {
    usim::np_scope np;
    OpRec& r = w->rec;
    KIT_CHECK(r.completions == 1, "c01.lost-completion", "the stream consumer never completed");
    // the prescribed sequence
    long M[kMaxElems * 2];
    int nm = 0;
    bool unbounded_cut = false;  // the sequence is ended by a trigger, not by the source
    switch (w->shape) {
      case 1: case 10: for (int v = w->lo; v < w->hi; ++v) M[nm++] = v * 2 + 1; break;
      case 2: for (int v = w->lo; v < w->hi; ++v) if (v % 2 == 0) M[nm++] = v; break;
      case 3: M[nm++] = w->lo; break;
      case 4: unbounded_cut = true; break;
      case 5: for (int v = w->lo; v < w->hi; ++v) M[nm++] = v; unbounded_cut = true; break;
      default: for (int v = w->lo; v < w->hi; ++v) M[nm++] = v; break;
    }
    KIT_CHECK(w->ngot <= nm, "c13.sequence", "%s delivered %d elements, the sequence has only %d", kShape[w->shape], w->ngot, nm);
    for (int i = 0; i < w->ngot && i < nm; ++i)
      KIT_CHECK(w->got[i] == M[i], "c13.sequence", "%s: element #%d is %ld, the sequence prescribes %ld (lost, duplicated, reordered or invented element)", kShape[w->shape], i, w->got[i], M[i]);
    long fold = 0;
    for (int i = 0; i < w->ngot; ++i) fold += w->got[i];
    bool cut = r.stop_begin != 0 || (unbounded_cut && w->trigger.claimed);
    if (r.channel == CH_VALUE) {
      if (!cut) KIT_CHECK(w->ngot == nm, "c13.fold", "%s completed with a value after %d of %d elements although nothing ended the sequence early", kShape[w->shape], w->ngot, nm);
      if (w->consumer == 0) KIT_CHECK(r.value == fold, "c13.fold", "reduce_stream yielded %ld, the fold over the delivered elements is %ld", r.value, fold);
      usim_probe("stream consumed to a value");
    } else if (r.channel == CH_DONE) {
      KIT_CHECK(r.stop_begin != 0, "c13.fold", "%s completed with done although stop was never requested", kShape[w->shape]);
      usim_probe("stream cancelled");
    } else {
      KIT_CHECK(false, "c13.fold", "%s completed with an error", kShape[w->shape]);
    }
    if (w->shape == 6 || w->shape == 14)
      for (int i = 0; i < w->ngot; ++i)
        KIT_CHECK(w->got_now[i] >= w->start_now + (uint64_t)(i + 1) * kDelayNs, "c07.early", "delay(): element #%d arrived %lluns after the start, before %d delays of %lldns had elapsed", i,
                  (unsigned long long)(w->got_now[i] - w->start_now), i + 1, (long long)kDelayNs);
    if (w->ngot == nm && nm) usim_probe("whole sequence delivered");
  }
  { usim::np_scope np; delete w; }
}

}  // namespace wsl

int main(int argc, char** argv) {
  static const usim_workload table[] = {{"streamlib", wsl::body}};
  return usim_main(argc, argv, table, 1);
}
