// w_scope — C08 (async_scope join) and C09 (futures): v2 scope (nest, spawn_detached,
// spawn_future, join) and v1 scope (spawn, detached_spawn, attach, complete, cleanup,
// request_stop). See DESIGN.md §8 C08/C09.
#include <kit/base.hpp>
#include <kit/gate.hpp>
#include <kit/recv.hpp>

#include <unifex/async_scope.hpp>
#include <unifex/inline_scheduler.hpp>
#include <unifex/nest.hpp>
#include <unifex/single_thread_context.hpp>
#include <unifex/spawn_detached.hpp>
#include <unifex/spawn_future.hpp>
#include <unifex/then.hpp>
#include <unifex/v0/async_scope.hpp>
#include <unifex/v2/async_scope.hpp>

#include <optional>

using namespace kit;

namespace {

constexpr int kMaxItems = 10;
constexpr int kMaxWorkers = 3;
constexpr int kMaxJoin = 2;

enum ItemKind { I_NEST_START, I_NEST_DISCARD, I_NEST_CONNECT_DISCARD, I_DETACHED, I_FUTURE_AWAIT, I_FUTURE_DROP, I_FUTURE_CANCEL, I_ATTACH_START, I_ATTACH_CANCEL, I_FUTURE_TVAL, I_KINDS };
const char* kItemName[] = {"nest+start", "nest+discard", "nest+connect+discard", "spawn_detached", "future+await", "future+drop", "future+await+cancel", "attach+start", "attach+start+cancel", "future<class>+await"};

// a counting allocator handed to spawn_detached / spawn_future: everything it serves must come back to it
struct AllocCount { long allocs = 0, deallocs = 0, bytes = 0; };
AllocCount g_ac;
AllocCount g_ac_detached;  // the share of spawn_detached: freed by the time the operation has completed, hence before any join completes
template <class T>
struct cnt_alloc {
  using value_type = T;
  int tag = 0;  // 1: handed to spawn_detached
  cnt_alloc() = default;
  explicit cnt_alloc(int t) noexcept : tag(t) {}
  template <class U>
  cnt_alloc(const cnt_alloc<U>& o) noexcept : tag(o.tag) {}
  T* allocate(size_t n) {
    T* p = (T*)::operator new(n * sizeof(T));
    usim::np_scope np;
    g_ac.allocs++;
    g_ac.bytes += (long)(n * sizeof(T));
    if (tag == 1) g_ac_detached.allocs++;
    return p;
  }
  void deallocate(T* p, size_t n) noexcept {
    { usim::np_scope np; g_ac.deallocs++; g_ac.bytes -= (long)(n * sizeof(T)); if (tag == 1) g_ac_detached.deallocs++; }
    ::operator delete(p);
  }
  template <class U>
  bool operator==(const cnt_alloc<U>&) const noexcept { return true; }
  template <class U>
  bool operator!=(const cnt_alloc<U>&) const noexcept { return false; }
};

// a class-type result whose move constructor throws at the n-th move of the run (n drawn; 0 never): somewhere on the way
// from the spawned operation into the future's shared state, or out of it again
struct TvState { long alive = 0, moves = 0, throw_at = 0; bool threw = false; };
TvState g_tv;
struct tval_throw { long n; };
struct TVal {
  long id;
  explicit TVal(long i) : id(i) { usim::np_scope np; g_tv.alive++; }
  TVal(TVal&& o) : id(o.id) {
    usim::np_scope np;
    if (g_tv.throw_at && ++g_tv.moves == g_tv.throw_at) { g_tv.threw = true; throw tval_throw{g_tv.moves}; }
    g_tv.alive++;
  }
  TVal(const TVal& o) : id(o.id) { usim::np_scope np; g_tv.alive++; }
  TVal& operator=(TVal&&) = default;
  ~TVal() { usim::np_scope np; g_tv.alive--; }
};

struct SItem {
  int kind = 0;
  int worker = 0;
  int pre = 0, mid = 0;
  OpRec rec;                         // the nest op / future await
  unifex::inplace_stop_source stop;  // for the awaiting receiver
  uint64_t issue_begin = 0, issue_end = 0;
  bool future_dropped = false;
  uint64_t drop_seq = 0;
  int fault = 0;       // 0 none, 1 allocation failures while the item is issued, 2 the nested sender's connect() throws
  bool threw = false;  // issuing the item ended with an exception: the item never existed
};

struct World {
  int nitems = 0;
  SItem items[kMaxItems];
  Gate gates[kMaxItems];
  int nworkers = 1, njoin = 1;
  OpRec join[kMaxJoin];
  int join_pre[kMaxJoin];
  int join_kind[kMaxJoin];  // v1: 0 complete, 1 cleanup ; v2: 0 join
  int stop_call_pre = -1;   // v1: a request_stop() caller (-1 none)
  uint64_t stop_call_begin = 0, stop_call_end = 0;
  volatile int workers_done = 0;
  volatile int all_done = 0;
  int opener_delay = 0;
  uint64_t first_join_done = 0;
  bool has_tval = false;
};

void join_hook(OpRec* r, void* arg) {
  World* w = (World*)arg;
  usim::np_scope np;
  if (!w->first_join_done) w->first_join_done = r->done_seq;
  // when a join receiver is entered every admitted (= started) piece of work has delivered its completion
  for (int i = 0; i < w->nitems; ++i) {
    Gate& g = w->gates[i];
    if (g.started)
      KIT_CHECK(g.claimed && g.delivered != CH_NONE, "c08.join-early", "join completed while nested work %d (%s) is still running", i, kItemName[w->items[i].kind]);
  }
  // ... and a nested operation has completed only when its own receiver has been completed (not merely its child)
  for (int i = 0; i < w->nitems; ++i) {
    SItem& it = w->items[i];
    if ((it.kind == I_NEST_START || it.kind == I_ATTACH_START || it.kind == I_ATTACH_CANCEL) && w->gates[i].started) {
      KIT_CHECK(it.rec.completions == 1, "c08.join-early", "join completed before the receiver of nested operation %d (%s) was completed", i, kItemName[it.kind]);
      usim_probe("join after the nested receiver's completion");
    }
  }
  // Only meaningful when no spawn_detached call can still be in progress (its allocation precedes admission): all workers done.
  if (w->workers_done)
    KIT_CHECK(g_ac_detached.allocs == g_ac_detached.deallocs, "c08.join-early", "join completed while %ld spawn_detached operation state(s) were still allocated (the spawned operation had not finished completing)",
              g_ac_detached.allocs - g_ac_detached.deallocs);
  KIT_CHECK(r->channel == CH_VALUE, "c08.join-lost", "join completed with %s instead of value", ch_name(r->channel));
}

// C04 (cancelled future): the future's receiver is completed with done only after the still-running spawned operation
// has been asked to stop - the stop callback that cancels a future requests stop on the loser before it hands over.
void future_cancel_hook(OpRec* r, void* arg) {
  World* w = (World*)arg;
  usim::np_scope np;
  int i = r->a;
  SItem& it = w->items[i];
  Gate& g = w->gates[i];
  if (r->channel != CH_DONE || !it.rec.stop_begin) return;
  if (!g.started || g.claimed || !g.armed || !g.cb_constructed) return;  // not running, or already completing by itself
  // v1: the scope's own stop source is a second path; a concurrent request_stop() on it returns before the callbacks have run
  if (w->stop_call_begin) return;
  for (int j = 0; j < w->njoin; ++j) if (w->join_kind[j] == 1 && w->join[j].start_begin) return;
  KIT_CHECK(g.stop_cb_ran, "c04.future-done-before-stop", "cancelled future %d completed with done while its spawned operation was still running and had not been asked to stop", i);
  usim_probe("cancelled future: loser asked to stop first");
}

template <class Scope>
constexpr bool is_v1 = std::is_same_v<Scope, unifex::v1::async_scope>;

template <class Scope>
void worker(World* w, Scope* scope, int me) {
  using S = unifex::inline_scheduler;
  for (int i = 0; i < w->nitems; ++i) {
    SItem& it = w->items[i];
    if (it.worker != me) continue;
    Gate* g = &w->gates[i];
    yields(it.pre);
    { usim::np_scope np; it.issue_begin = seq(); }
    if (it.fault == 1) usim_alloc_fault_window(1);
    try {
    switch (it.kind) {
      case I_NEST_START: case I_ATTACH_START: case I_ATTACH_CANCEL: {
        auto ns = unifex::nest(gate_sender{g}, *scope);
        { usim::np_scope np; it.issue_end = seq(); }
        yields(it.mid);
        started_op<S, decltype(ns)> op;
        op.start(&it.rec, S{}, std::move(ns));
        // the consumer's own stop request: a second stop path into the same attach operation, free to overlap a stop of the scope
        if (it.kind == I_ATTACH_CANCEL) { yields(it.mid); it.rec.request_stop(); }
        it.rec.wait();
        op.destroy();
        break;
      }
      case I_NEST_DISCARD: {
        {
          auto ns = unifex::nest(gate_sender{g}, *scope);
          { usim::np_scope np; it.issue_end = seq(); }
          yields(it.mid);
        }
        break;
      }
      case I_NEST_CONNECT_DISCARD: {
        auto ns = unifex::nest(gate_sender{g}, *scope);
        { usim::np_scope np; it.issue_end = seq(); }
        using R = SchedReceiver<S>;
        using Op = unifex::connect_result_t<decltype(ns), R>;
        arena_box<Op> box;
        box.construct_with([&] { return unifex::connect(std::move(ns), R{&it.rec, S{}}); });
        yields(it.mid);
        box.destroy();  // never started: the scope reference must be released by the destructor
        break;
      }
      case I_DETACHED: {
        if (it.pre & 1) unifex::spawn_detached(unifex::then(gate_sender{g}, [](long) noexcept {}), *scope, cnt_alloc<std::byte>{1});
        else unifex::spawn_detached(unifex::then(gate_sender{g}, [](long) noexcept {}), *scope);
        { usim::np_scope np; it.issue_end = seq(); }
        break;
      }
      case I_FUTURE_AWAIT: case I_FUTURE_CANCEL: {
        auto fut = (it.pre & 1) ? unifex::spawn_future(gate_sender{g}, *scope, cnt_alloc<std::byte>{}) : unifex::spawn_future(gate_sender{g}, *scope);
        { usim::np_scope np; it.issue_end = seq(); }
        yields(it.mid);
        started_op<S, decltype(fut)> op;
        op.start(&it.rec, S{}, std::move(fut));
        if (it.kind == I_FUTURE_CANCEL) { yields(it.mid); it.rec.request_stop(); }
        it.rec.wait();
        op.destroy();
        break;
      }
      case I_FUTURE_TVAL: {
        auto fut = unifex::spawn_future(unifex::then(gate_sender{g}, [](long v) { return TVal{v}; }), *scope);
        { usim::np_scope np; it.issue_end = seq(); }
        yields(it.mid);
        auto snd = unifex::then(std::move(fut), [](TVal v) noexcept { return v.id; });
        started_op<S, decltype(snd)> op;
        op.start(&it.rec, S{}, std::move(snd));
        it.rec.wait();
        op.destroy();
        break;
      }
      case I_FUTURE_DROP: {
        {
          auto fut = (it.pre & 1) ? unifex::spawn_future(gate_sender{g}, *scope, cnt_alloc<std::byte>{}) : unifex::spawn_future(gate_sender{g}, *scope);
          { usim::np_scope np; it.issue_end = seq(); }
          yields(it.mid);
          { usim::np_scope np; it.future_dropped = true; it.drop_seq = seq(); }
        }  // dropping requests stop on the spawned operation
        break;
      }
    }
    } catch (const gate_error&) {
      usim::np_scope np;
      it.threw = true;
      usim_probe("issuing an item threw (connect)");
    } catch (const std::bad_alloc&) {
      usim::np_scope np;
      it.threw = true;
      usim_probe("issuing an item threw (bad_alloc)");
    }
    if (it.fault == 1) usim_alloc_fault_window(0);
  }
}

template <class Scope>
void body_scope(const char* name) {
  World* w;
  { usim::np_scope np; w = new World(); g_tv = TvState{}; g_ac = AllocCount{}; g_ac_detached = AllocCount{}; }  // (a run that ended in a verdict left them as they were)
  constexpr bool v1 = is_v1<Scope>;
  w->nitems = draw_range(1, kMaxItems);
  w->nworkers = draw_range(1, kMaxWorkers);
  w->njoin = draw_range(1, kMaxJoin);
  const bool faults = usim_param_int("faults", 0) != 0;
  bool any_alloc_fault = false;
  for (int i = 0; i < w->nitems; ++i) {
    SItem& it = w->items[i];
    int k = draw(v1 ? 9 : 7);
    if (usim_param_int("tval", 0) && draw(5) == 0) k = I_FUTURE_TVAL;
    it.kind = k;
    it.worker = draw(w->nworkers);
    it.pre = draw_small(8);
    it.mid = draw_small(6);
    it.rec.what = kItemName[k];
    it.rec.a = i;
    it.rec.oracle_double = "c08.double";
    it.rec.stop = &it.stop;
    if (k == I_FUTURE_TVAL) {
      if (g_tv.throw_at >= 0 && !w->has_tval) { w->has_tval = true; g_tv.throw_at = draw(6); }  // one per run: the move counter is global
      else { k = I_FUTURE_AWAIT; it.kind = k; it.rec.what = kItemName[k]; }
    }
    if (k == I_FUTURE_CANCEL) { it.rec.hook = &future_cancel_hook; it.rec.hook_arg = w; }
    Gate& g = w->gates[i];
    g.id = i;
    int o = draw(6);
    g.outcome = o < 4 ? CH_VALUE : o < 5 ? CH_ERROR : CH_DONE;
    if (k == I_DETACHED && g.outcome == CH_ERROR) g.outcome = CH_VALUE;  // spawn_detached terminates on error by design
    g.payload = 500 + i;
    g.mode = draw(3) == 0 ? 0 : 1;
    g.on_stop = draw(4) == 0 ? 0 : 1;
    if (faults) {
      int f = draw(7);
      it.fault = f == 0 ? 1 : f == 1 ? 2 : 0;
      if (it.fault == 2) g.throw_on_connect = true;
      if (it.fault == 1) any_alloc_fault = true;
    }
  }
  if (any_alloc_fault) usim_fault_rate(USIM_F_ALLOC, 350);
  for (int j = 0; j < w->njoin; ++j) {
    w->join[j].what = "join";
    w->join[j].a = j;
    w->join[j].oracle_double = "c08.join-double";
    w->join[j].hook = &join_hook;
    w->join[j].hook_arg = w;
    w->join_pre[j] = draw_small(40);
    w->join_kind[j] = v1 ? draw(2) : 0;
  }
  if (v1 && draw(3) == 0) w->stop_call_pre = draw_small(40);
  w->opener_delay = draw_small(8);
  if (draw(3) == 0) usim_fault_rate(USIM_F_CAS_WEAK, 100);
  {
    usim::np_scope np;
    char buf[500];
    int o = snprintf(buf, sizeof buf, "%s: workers=%d joins=%d items=[", name, w->nworkers, w->njoin);
    for (int i = 0; i < w->nitems && o < 440; ++i)
      o += snprintf(buf + o, sizeof buf - o, "%s%s/%s%s w%d", i ? ", " : "", kItemName[w->items[i].kind], ch_name(w->gates[i].outcome), w->gates[i].mode ? "" : "!", w->items[i].worker);
    usim_sample("%s]", buf);
  }
  arena_box<Scope> scope;
  scope.construct();
  std::thread thr[kMaxWorkers + kMaxJoin + 2];
  int nt = 0;
  volatile int workers_left = w->nworkers;
  for (int m = 0; m < w->nworkers; ++m)
    thr[nt++] = std::thread([w, m, &scope, &workers_left] {
      worker<Scope>(w, scope.p, m);
      usim::np_scope np;
      workers_left = workers_left - 1;
      if (!workers_left) w->workers_done = 1;
    });
  using S = unifex::inline_scheduler;
  for (int j = 0; j < w->njoin; ++j)
    thr[nt++] = std::thread([w, j, &scope] {
      yields(w->join_pre[j]);
      if constexpr (is_v1<Scope>) {
        if (w->join_kind[j] == 0) {
          auto snd = scope->complete();
          started_op<S, decltype(snd)> op;
          op.start(&w->join[j], S{}, std::move(snd));
          w->join[j].wait();
          op.destroy();
        } else {
          auto snd = scope->cleanup();
          started_op<S, decltype(snd)> op;
          op.start(&w->join[j], S{}, std::move(snd));
          w->join[j].wait();
          op.destroy();
        }
      } else {
        auto snd = scope->join();
        started_op<S, decltype(snd)> op;
        op.start(&w->join[j], S{}, std::move(snd));
        w->join[j].wait();
        op.destroy();
      }
    });
  if constexpr (v1) {
    if (w->stop_call_pre >= 0)
      thr[nt++] = std::thread([w, &scope] {
        yields(w->stop_call_pre);
        { usim::np_scope np; w->stop_call_begin = seq(); }
        scope->request_stop();
        { usim::np_scope np; w->stop_call_end = seq(); }
      });
  }
  gate_opener opener{w->gates, w->nitems, &w->all_done, w->opener_delay};
  std::thread opener_thr([&opener] { opener.run(); });
  for (int i = 0; i < nt; ++i) thr[i].join();
  w->all_done = 1;
  opener_thr.join();

  // ---- history
  {
    usim::np_scope np;
    uint64_t first_close = 0;  // the earliest moment the scope is known to have been closed: a join's start has returned
    for (int j = 0; j < w->njoin; ++j) {
      KIT_CHECK(w->join[j].completions == 1, "c08.join-lost", "join %d never completed although all nested work finished", j);
      if (!first_close || w->join[j].start_end < first_close) first_close = w->join[j].start_end;
    }
    if (w->stop_call_end && (!first_close || w->stop_call_end < first_close)) first_close = w->stop_call_end;
    for (int i = 0; i < w->nitems; ++i) {
      SItem& it = w->items[i];
      Gate& g = w->gates[i];
      bool has_rec = it.kind == I_FUTURE_TVAL || it.kind == I_NEST_START || it.kind == I_ATTACH_START || it.kind == I_ATTACH_CANCEL || it.kind == I_FUTURE_AWAIT || it.kind == I_FUTURE_CANCEL;
      if (it.threw) {
        // the exception left the scope as if the item had never been issued (the joins above did complete; leaks are the arena's business)
        KIT_CHECK(!g.started, "c09.throw-started", "issuing work %d (%s) threw, yet its operation was started", i, kItemName[it.kind]);
        KIT_CHECK(!g.connected || g.destroyed, "c02.leak-object", "issuing work %d (%s) threw after connecting the operation, which was never destroyed", i, kItemName[it.kind]);
        KIT_CHECK(it.rec.completions == 0, "c09.throw-started", "issuing work %d (%s) threw, yet its receiver was completed", i, kItemName[it.kind]);
        continue;
      }
      if (g.started) {
        KIT_CHECK(g.claimed, "c08.join-early", "nested work %d was started but never completed", i);
        KIT_CHECK(g.start_seq < w->first_join_done, "c08.started-after-close", "nested work %d (%s) was started after a join had already completed", i, kItemName[it.kind]);
        KIT_CHECK(g.complete_begin < w->first_join_done || g.complete_begin == 0, "c08.admitted-not-waited", "nested work %d completed after a join completion", i);
        usim_probe("nested work admitted and run");
      }
      // issued strictly after the scope was closed: never started
      if (first_close && it.issue_begin > first_close) {
        KIT_CHECK(!g.started, "c08.started-after-close", "work %d (%s) was nested after the scope had been closed, yet it was started", i, kItemName[it.kind]);
        if (has_rec && it.rec.completions) KIT_CHECK(it.rec.channel == CH_DONE, "c08.started-after-close", "work %d nested after close completed with %s, not done", i, ch_name(it.rec.channel));
        usim_probe("work refused after close");
      }
      if (it.kind == I_NEST_DISCARD || it.kind == I_NEST_CONNECT_DISCARD)
        KIT_CHECK(!g.started, "c01.signal-without-start", "discarded nest-sender %d had its work started", i);
      if (has_rec) {
        KIT_CHECK(it.rec.completions == 1, "c09.outcome", "%s %d never completed", kItemName[it.kind], i);
        if (it.kind == I_NEST_START || it.kind == I_ATTACH_START || it.kind == I_ATTACH_CANCEL) {
          bool scope_stopped = false;  // v1 attach answers a stop request on the scope with an immediate done
          if (it.rec.stop_begin && it.rec.stop_begin < it.rec.done_seq) scope_stopped = true;  // ... and likewise one from its consumer
          if constexpr (v1) {
            if (w->stop_call_begin && w->stop_call_begin < it.rec.done_seq) scope_stopped = true;
            for (int j = 0; j < w->njoin; ++j)
              if (w->join_kind[j] == 1 && w->join[j].start_begin && w->join[j].start_begin < it.rec.done_seq) scope_stopped = true;
          }
          if (g.started && !(scope_stopped && it.rec.channel == CH_DONE))
            KIT_CHECK(it.rec.channel == g.delivered && (g.delivered != CH_VALUE || it.rec.value == g.payload), "c08.passthrough", "nested sender %d delivered %s but its receiver got %s", i, ch_name(g.delivered), ch_name(it.rec.channel));
          else KIT_CHECK(it.rec.channel == CH_DONE, "c08.started-after-close", "refused nest-sender %d completed with %s, not done", i, ch_name(it.rec.channel));
        } else {
          // futures: the operation's value/error, or done (op done, scope closed, or cancelled before the result was available)
          bool scope_stop_path = false;  // v1: cleanup()/request_stop() cancel pending futures (done), whatever the operation does later
          if constexpr (v1) {
            if (w->stop_call_begin && w->stop_call_begin < it.rec.done_seq) scope_stop_path = true;
            for (int j = 0; j < w->njoin; ++j)
              if (w->join_kind[j] == 1 && w->join[j].start_begin && w->join[j].start_begin < it.rec.done_seq) scope_stop_path = true;
          }
          if (it.kind == I_FUTURE_TVAL && g_tv.threw && !(scope_stop_path && it.rec.channel == CH_DONE))
            KIT_CHECK(it.rec.channel == CH_ERROR, "c09.outcome", "future %d: moving the spawned operation's value threw (move #%ld), yet the future yielded %s instead of the exception", i, g_tv.moves, ch_name(it.rec.channel));
          if (it.rec.channel == CH_VALUE) {
            KIT_CHECK(g.delivered == CH_VALUE && it.rec.value == g.payload, "c09.outcome", "future %d yielded value %ld but the spawned operation delivered %s %ld", i, it.rec.value, ch_name(g.delivered), g.payload);
            usim_probe("future yielded the operation's value");
          } else if (it.rec.channel == CH_ERROR && it.kind == I_FUTURE_TVAL && g_tv.threw) {
            usim_probe("future<class>: a throwing move surfaced as the future's error");
          } else if (it.rec.channel == CH_ERROR) {
            KIT_CHECK(g.delivered == CH_ERROR, "c09.outcome", "future %d yielded an error but the spawned operation delivered %s", i, ch_name(g.delivered));
          } else {
            bool ok = !g.started || g.delivered == CH_DONE || it.rec.stop_begin != 0;
            if constexpr (v1) {
              // v1 futures carry the scope's stop token: cleanup()/request_stop() on the scope cancels pending futures
              if (w->stop_call_begin && w->stop_call_begin < it.rec.done_seq) ok = true;
              for (int j = 0; j < w->njoin; ++j)
                if (w->join_kind[j] == 1 && w->join[j].start_begin && w->join[j].start_begin < it.rec.done_seq) ok = true;
            }
            KIT_CHECK(ok, "c09.outcome", "future %d yielded done although the spawned operation delivered %s and nobody cancelled", i, ch_name(g.delivered));
            // a result already available when the await starts is delivered even if stop was requested
            if (ok && !v1 && g.started && g.delivered != CH_DONE && g.complete_end && g.complete_end < it.rec.start_begin)
              KIT_CHECK(false, "c09.outcome", "future %d: the result (%s) was available before the await started, yet the future yielded done", i, ch_name(g.delivered));
          }
          bool other_stop_path = false;  // v1: the scope's stop source is a second path into the same attach op
          if constexpr (v1) {
            if (w->stop_call_begin && w->stop_call_begin < g.complete_begin) other_stop_path = true;
            for (int j = 0; j < w->njoin; ++j)
              if (w->join_kind[j] == 1 && w->join[j].start_begin && w->join[j].start_begin < g.complete_begin) other_stop_path = true;
          }
          if (it.kind == I_FUTURE_CANCEL && !other_stop_path && g.started && g.claimed && it.rec.stop_end && g.complete_begin > it.rec.stop_end)
            KIT_CHECK(g.stop_at_completion, "c09.cancel-no-stop", "future %d was cancelled but the spawned operation never saw a stop request", i);
        }
      }
      if (it.kind == I_FUTURE_DROP && g.started && g.claimed && g.complete_begin > it.drop_seq) {
        // completion began after the drop started: by the time the drop returned the op must have been told to stop
        if (g.complete_begin > it.issue_end && g.stop_at_completion) usim_probe("dropped future stopped its operation");
      }
    }
    // v1 cleanup()/request_stop(): outstanding spawned work observed stop
    if constexpr (v1) {
      // Only the request_stop() call that made the transition returns after every callback ran;
      // a concurrent second caller returns at once. Which one was first is not observable, so the
      // stop is known to be fully delivered only when *all* callers have returned.
      uint64_t stop_by = w->stop_call_end;
      bool pending = w->stop_call_begin && !w->stop_call_end;
      for (int j = 0; j < w->njoin; ++j)
        if (w->join_kind[j] == 1) {
          if (!w->join[j].start_end) pending = true;
          else if (w->join[j].start_end > stop_by) stop_by = w->join[j].start_end;
        }
      if (pending) stop_by = 0;
      if (stop_by)
        for (int i = 0; i < w->nitems; ++i) {
          Gate& g = w->gates[i];
          // A future that is being dropped / cancelled has a second stop path into the same attach
          // operation; whichever path claims it first delivers the stop and the other returns at once,
          // so cleanup() returning does not imply delivery for those.
          int kd = w->items[i].kind;
          if (kd == I_FUTURE_DROP || kd == I_FUTURE_CANCEL || kd == I_ATTACH_CANCEL) continue;
          if (g.started && g.claimed && g.complete_begin > stop_by && g.stop_possible) {
            KIT_CHECK(g.stop_at_completion, "c08.cleanup-no-stop", "work %d (%s) completed (seq %llu, started %llu) after cleanup()/request_stop() returned (seq %llu) without having seen a stop request", i, kItemName[w->items[i].kind],
                      (unsigned long long)g.complete_begin, (unsigned long long)g.start_seq, (unsigned long long)stop_by);
            usim_probe("cleanup stopped outstanding work");
          }
        }
    }
  }
  scope.destroy();
  {
    usim::np_scope np;
    KIT_CHECK(g_ac.allocs == g_ac.deallocs && g_ac.bytes == 0, "c12.allocator-pairing", "the allocator passed to spawn_detached/spawn_future served %ld allocations and received %ld deallocations (%ld bytes outstanding)",
              g_ac.allocs, g_ac.deallocs, g_ac.bytes);
    if (g_ac.allocs) usim_probe("spawn allocator pairing checked");
    g_ac = AllocCount{};
    g_ac_detached = AllocCount{};
    KIT_CHECK(g_tv.alive == 0, "c09.value-lifetime", "%ld class-type future value(s) %s after the scope and every future were gone", g_tv.alive < 0 ? -g_tv.alive : g_tv.alive, g_tv.alive < 0 ? "destroyed without having been constructed" : "still alive");
    g_tv = TvState{};
  }
  { usim::np_scope np; delete w; }
}


// ---- v0::async_scope: spawn() of void senders, complete()/cleanup()/request_stop()
void body_v0(void*) {
  World* w;
  { usim::np_scope np; w = new World(); }
  using Scope = unifex::v0::async_scope;
  w->nitems = draw_range(1, kMaxItems);
  w->nworkers = draw_range(1, kMaxWorkers);
  w->njoin = draw_range(1, kMaxJoin);
  const bool faults = usim_param_int("faults", 0) != 0;
  bool any_alloc_fault = false;
  for (int i = 0; i < w->nitems; ++i) {
    SItem& it = w->items[i];
    it.kind = I_DETACHED;
    it.worker = draw(w->nworkers);
    it.pre = draw_small(8);
    it.mid = draw_small(6);
    Gate& g = w->gates[i];
    g.id = i;
    g.outcome = draw(5) == 0 ? CH_DONE : CH_VALUE;  // (an error terminates the process by design)
    g.payload = 500 + i;
    g.mode = draw(3) == 0 ? 0 : 1;
    g.on_stop = draw(4) == 0 ? 0 : 1;
    if (faults) {
      int f = draw(7);
      it.fault = f == 0 ? 1 : f == 1 ? 2 : 0;
      if (it.fault == 2) g.throw_on_connect = true;
      if (it.fault == 1) any_alloc_fault = true;
    }
  }
  if (any_alloc_fault) usim_fault_rate(USIM_F_ALLOC, 350);
  for (int j = 0; j < w->njoin; ++j) {
    w->join[j].what = "join";
    w->join[j].a = j;
    w->join[j].oracle_double = "c08.join-double";
    w->join[j].hook = &join_hook;
    w->join[j].hook_arg = w;
    w->join_pre[j] = draw_small(40);
    w->join_kind[j] = draw(2);  // 0 complete, 1 cleanup
  }
  if (draw(3) == 0) w->stop_call_pre = draw_small(40);
  w->opener_delay = draw_small(8);
  if (draw(3) == 0) usim_fault_rate(USIM_F_CAS_WEAK, 100);
  usim_sample("async_scope v0: workers=%d joins=%d items=%d stopper=%d", w->nworkers, w->njoin, w->nitems, w->stop_call_pre >= 0);
  arena_box<Scope> scope;
  scope.construct();
  std::thread thr[kMaxWorkers + kMaxJoin + 2];
  int nt = 0;
  for (int m = 0; m < w->nworkers; ++m)
    thr[nt++] = std::thread([w, m, &scope] {
      for (int i = 0; i < w->nitems; ++i) {
        SItem& it = w->items[i];
        if (it.worker != m) continue;
        yields(it.pre);
        { usim::np_scope np; it.issue_begin = seq(); }
        if (it.fault == 1) usim_alloc_fault_window(1);
        try {
          scope->spawn(unifex::then(gate_sender{&w->gates[i]}, [](long) noexcept {}));
        } catch (const gate_error&) {
          usim::np_scope np; it.threw = true; usim_probe("issuing an item threw (connect)");
        } catch (const std::bad_alloc&) {
          usim::np_scope np; it.threw = true; usim_probe("issuing an item threw (bad_alloc)");
        }
        if (it.fault == 1) usim_alloc_fault_window(0);
        { usim::np_scope np; it.issue_end = seq(); }
      }
    });
  using S = unifex::inline_scheduler;
  for (int j = 0; j < w->njoin; ++j)
    thr[nt++] = std::thread([w, j, &scope] {
      yields(w->join_pre[j]);
      if (w->join_kind[j] == 0) {
        auto snd = scope->complete();
        started_op<S, decltype(snd)> op;
        op.start(&w->join[j], S{}, std::move(snd));
        w->join[j].wait();
        op.destroy();
      } else {
        auto snd = scope->cleanup();
        started_op<S, decltype(snd)> op;
        op.start(&w->join[j], S{}, std::move(snd));
        w->join[j].wait();
        op.destroy();
      }
    });
  if (w->stop_call_pre >= 0)
    thr[nt++] = std::thread([w, &scope] {
      yields(w->stop_call_pre);
      { usim::np_scope np; w->stop_call_begin = seq(); }
      scope->request_stop();
      { usim::np_scope np; w->stop_call_end = seq(); }
    });
  gate_opener opener{w->gates, w->nitems, &w->all_done, w->opener_delay};
  std::thread opener_thr([&opener] { opener.run(); });
  for (int i = 0; i < nt; ++i) thr[i].join();
  w->all_done = 1;
  opener_thr.join();
  {
    usim::np_scope np;
    uint64_t first_close = 0;
    for (int j = 0; j < w->njoin; ++j) {
      KIT_CHECK(w->join[j].completions == 1, "c08.join-lost", "join %d never completed although all spawned work finished", j);
      if (!first_close || w->join[j].start_end < first_close) first_close = w->join[j].start_end;
    }
    if (w->stop_call_end && (!first_close || w->stop_call_end < first_close)) first_close = w->stop_call_end;
    uint64_t stop_by = w->stop_call_end;
    bool pending = w->stop_call_begin && !w->stop_call_end;
    for (int j = 0; j < w->njoin; ++j)
      if (w->join_kind[j] == 1) {
        if (!w->join[j].start_end) pending = true;
        else if (w->join[j].start_end > stop_by) stop_by = w->join[j].start_end;
      }
    if (pending) stop_by = 0;
    for (int i = 0; i < w->nitems; ++i) {
      SItem& it = w->items[i];
      Gate& g = w->gates[i];
      if (it.threw) {
        KIT_CHECK(!g.started, "c09.throw-started", "spawn of work %d threw, yet its operation was started", i);
        KIT_CHECK(!g.connected || g.destroyed, "c02.leak-object", "spawn of work %d threw after connecting the operation, which was never destroyed", i);
        continue;
      }
      if (g.started) {
        KIT_CHECK(g.claimed, "c08.join-early", "spawned work %d was started but never completed", i);
        KIT_CHECK(g.start_seq < w->first_join_done, "c08.started-after-close", "spawned work %d was started after a join had already completed", i);
        KIT_CHECK(g.destroyed, "c02.leak-object", "operation of spawned work %d was never destroyed", i);
        usim_probe("nested work admitted and run");
      } else {
        KIT_CHECK(!g.connected || g.destroyed, "c02.leak-object", "operation of refused work %d was never destroyed", i);
      }
      if (first_close && it.issue_begin > first_close) {
        KIT_CHECK(!g.started, "c08.started-after-close", "work %d was spawned after the scope had been closed, yet it was started", i);
        usim_probe("work refused after close");
      }
      if (stop_by && g.started && g.claimed && g.complete_begin > stop_by && g.stop_possible) {
        KIT_CHECK(g.stop_at_completion, "c08.cleanup-no-stop", "work %d completed after cleanup()/request_stop() returned without having seen a stop request", i);
        usim_probe("cleanup stopped outstanding work");
      }
    }
  }
  scope.destroy();
  { usim::np_scope np; delete w; }
}

void body_v2(void*) { body_scope<unifex::v2::async_scope>("async_scope v2"); }
void body_v1(void*) { body_scope<unifex::v1::async_scope>("async_scope v1"); }

}  // namespace

int main(int argc, char** argv) {
  static const usim_workload table[] = {{"scope_v2", body_v2}, {"scope_v1", body_v1}, {"scope_v0", body_v0}};
  return usim_main(argc, argv, table, 3);
}
