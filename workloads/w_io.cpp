// w_io — C14 (io_epoll_context) and the I/O-context timers of C07.
// The library's epoll code runs unmodified on the real kernel's epoll/eventfd/pipe objects;
// time is virtual (sim/rt/fdlayer.cpp). One run()-thread with a stop token; remote producers
// scheduling items and timers; a reader and a writer actor doing sequential async_read_some /
// async_write_some on a pipe with per-operation stop requests; peer close.
// See DESIGN.md §8 C14/C07. The same body drives io_uring_context over the in-process ring model
// (sim/rt/uring_model.cpp): the byte channel is a pipe re-opened by path through
// open_file_read_only / open_file_write_only, plus a regular file read and written at offsets.
#include <kit/base.hpp>
#include <kit/items.hpp>
#include <kit/recv.hpp>

#include <unifex/inline_scheduler.hpp>
#include <unifex/file_concepts.hpp>
#include <unifex/linux/io_epoll_context.hpp>
#include <unifex/linux/io_uring_context.hpp>
#include <unifex/scheduler_concepts.hpp>
#include <unifex/span.hpp>

#include <chrono>
#include <fcntl.h>
#include <unistd.h>

extern "C" int usim_epoll_registrations_in(const void* p, size_t n);
extern "C" void usim_last_pipe(int out[2]);

using namespace kit;

namespace {

struct epoll_traits {
  using ctx_t = unifex::linuxos::io_epoll_context;
  static constexpr const char* name = "io_epoll";
  static constexpr bool has_files = false;
  using sched_t = decltype(std::declval<ctx_t&>().get_scheduler());
  using pipe_t = decltype(unifex::open_pipe(std::declval<sched_t>()));
  struct Chan {
    pipe_t pipe;
    explicit Chan(sched_t s) : pipe(unifex::open_pipe(s)) {}
    auto read(unsigned char* b, size_t n) { return unifex::async_read_some(pipe.first, unifex::as_writable_bytes(unifex::span{b, n})); }
    auto write(unsigned char* b, size_t n) { return unifex::async_write_some(pipe.second, unifex::as_bytes(unifex::span{b, n})); }
  };
};

struct uring_traits {
  using ctx_t = unifex::linuxos::io_uring_context;
  static constexpr const char* name = "io_uring";
  static constexpr bool has_files = true;
  using sched_t = decltype(std::declval<ctx_t&>().get_scheduler());
  static unifex::filesystem::path fd_path(int fd) {
    char buf[40];
    snprintf(buf, sizeof buf, "/proc/self/fd/%d", fd);
    return unifex::filesystem::path(buf);
  }
  struct Keeper {
    int fds[2];
    Keeper() { if (pipe2(fds, O_CLOEXEC) != 0) abort(); }
    ~Keeper() { close(fds[0]); close(fds[1]); }
  };
  struct Chan {
    Keeper keep;  // both ends stay open in the harness: no EOF/EPIPE unless a scenario asks for it
    ctx_t::async_read_only_file rd;
    ctx_t::async_write_only_file wr;
    explicit Chan(sched_t s)
      : rd(unifex::open_file_read_only(s, fd_path(keep.fds[0]))), wr(unifex::open_file_write_only(s, fd_path(keep.fds[1]))) {}
    auto read(unsigned char* b, size_t n) { return unifex::async_read_some_at(rd, 0, unifex::as_writable_bytes(unifex::span{b, n})); }
    auto write(unsigned char* b, size_t n) { return unifex::async_write_some_at(wr, 0, unifex::as_bytes(unifex::span{b, n})); }
  };
};

constexpr int kMaxItems = 16;
constexpr int kMaxIo = 6;

struct IoOp {
  int len = 1;
  int stop_mode = 0;  // 0 none, 1 before start, 2 stopper after yields
  int stop_yields = 0;
  int pre = 0;
  OpRec rec;
  unifex::inplace_stop_source stop;
  unsigned char* buf = nullptr;   // arena buffer (freed after completion)
  unsigned char before[64];
};

struct FileOp {
  bool is_write = false;
  int off = 0, len = 1;
  int stop_mode = 0;  // 0 none, 1 before start
  int pre = 0;
  OpRec rec;
  unifex::inplace_stop_source stop;
};
constexpr int kMaxFile = 6;
constexpr int kFileCap = 160;

struct WorldBase {
  unifex::inplace_stop_source run_stop;
  int io_tid = -1;
  // scheduled items / timers
  Item items[kMaxItems];
  unifex::inplace_stop_source stops[kMaxItems];
  int nitems = 0;
  int nprod = 1;
  int kind[kMaxItems];          // 0 schedule, 1 schedule_after, 2 schedule_at
  int64_t off_ns[kMaxItems];
  uint64_t due_lo[kMaxItems], stop_end_now[kMaxItems], start_end_now[kMaxItems];
  uint64_t base = 0;
  // pipe
  int nread = 0, nwrite = 0;
  IoOp rd[kMaxIo], wr[kMaxIo];
  bool close_writer_at_end = true;
  long written_total = 0, read_total = 0;
  volatile int writer_done = 0, reader_done = 0;
  bool timer_first = false;
  // regular file (io_uring only)
  int nfile = 0;
  FileOp fo[kMaxFile];
  const char* ctx_name = "";
};
template <class T>
struct World : WorldBase {
  arena_box<typename T::ctx_t> ctx;
};

void io_hook(Item* it, void* arg) {
  WorldBase* w = (WorldBase*)arg;
  usim::np_scope np;
  KIT_CHECK(it->done_tid == w->io_tid, "c14.wrong-thread", "item %d completed on T%d, not on the thread inside run()", it->id, it->done_tid);
  if (it->channel == CH_VALUE && w->kind[it->id] != 0)
    KIT_CHECK(it->done_now >= w->due_lo[it->id], "c07.early", "%s timer %d completed with value %lluns before its due time", w->ctx_name, it->id, (unsigned long long)(w->due_lo[it->id] - it->done_now));
}

template <class T>
void body_io(void*) {
  using ctx_t = typename T::ctx_t;
  World<T>* w;
  { usim::np_scope np; w = new World<T>(); w->ctx_name = T::name; }
  // ---- plan
  w->nprod = draw_range(1, 3);
  w->nitems = draw_range(0, 10);
  static const int64_t offs[] = {0, 0, 20000, 50000, 50000, 200000, 1000000, 3600000000000ll};
  for (int k = 0; k < w->nitems; ++k) {
    Item& it = w->items[k];
    it.id = k;
    it.oracle_prefix = "c14";
    it.stop = &w->stops[k];
    it.producer = draw(w->nprod);
    it.pre_yields = draw_small(6);
    it.free_in_completion = draw(5) != 0;
    it.on_complete = &io_hook;
    it.hook_arg = w;
    int kd = draw(4);
    w->kind[k] = kd < 2 ? 0 : kd - 1;
    w->off_ns[k] = offs[draw((int)(sizeof offs / sizeof offs[0]))];
    int sm = draw(8);
    it.stop_mode = sm < 4 ? 0 : sm < 5 ? 1 : sm < 7 ? 2 : 3;
    if (w->kind[k] != 0 && w->off_ns[k] > 2000000000ll && it.stop_mode == 0) it.stop_mode = 3;  // an hour-long timer gets cancelled
    it.stop_yields = draw_small(12);
  }
  w->nread = draw_range(0, kMaxIo);
  w->nwrite = draw_range(0, kMaxIo);
  for (int i = 0; i < kMaxIo; ++i) {
    for (IoOp* o : {&w->rd[i], &w->wr[i]}) {
      o->len = 1 + draw(48);
      int sm = draw(6);
      o->stop_mode = sm < 4 ? 0 : sm < 5 ? 1 : 2;
      o->stop_yields = draw_small(12);
      o->pre = draw_small(6);
      o->rec.a = i;
      o->rec.oracle_double = "c14.double";
      o->rec.stop = &o->stop;
    }
    w->rd[i].rec.what = "async_read_some";
    w->wr[i].rec.what = "async_write_some";
    w->wr[i].stop_mode = 0;  // pipe writes below capacity complete inline; cancellation is exercised on reads
  }
  w->timer_first = draw(4) == 0;
  if (w->timer_first) usim_fault_rate(USIM_F_TIMER_FIRST, 20);
  if (draw(3) == 0) usim_fault_rate(USIM_F_SYSCALL, 60);
  if (draw(3) == 0) usim_fault_rate(USIM_F_CAS_WEAK, 100);
  if (draw(3) == 0) usim_fault_rate(USIM_F_CLOCK_JITTER, 200);
  if constexpr (T::has_files) {
    w->nfile = draw_range(0, kMaxFile);
    for (int i = 0; i < kMaxFile; ++i) {
      FileOp& o = w->fo[i];
      o.is_write = draw(2) == 0 || i == 0;
      o.off = draw(96);
      o.len = 1 + draw(48);
      o.stop_mode = draw(6) == 0 ? 1 : 0;
      o.pre = draw_small(6);
      o.rec.a = i;
      o.rec.oracle_double = "c14.double";
      o.rec.stop = &o.stop;
      o.rec.what = o.is_write ? "async_write_some_at" : "async_read_some_at";
    }
    if (draw(3) == 0) usim_fault_rate(USIM_F_KERNEL_DELAY, 150);
  }
  usim_sample("%s: producers=%d items=%d reads=%d writes=%d fileops=%d", T::name, w->nprod, w->nitems, w->nread, w->nwrite, w->nfile);

  w->ctx.construct();
  auto sched = w->ctx->get_scheduler();
  if (usim_param_int("rerun", 0) && draw(2) == 0) {
    // The loop is first run - and left again - by this thread (a stop request is already pending), then by the io thread:
    // having been inside run() once must not make this thread "the io thread" for its later submissions and stop requests.
    unifex::inplace_stop_source pre;
    pre.request_stop();
    w->ctx->run(pre.get_token());
    usim_probe("loop run and left by the main thread first");
  }
  std::thread io([w] {
    { usim::np_scope np; w->io_tid = usim_here(); }
    w->ctx->run(w->run_stop.get_token());
  });
  w->base = usim_now() + 100000;
  using clock_tp = decltype(unifex::now(sched));

  std::thread thr[8];
  int nt = 0;
  for (int p = 0; p < w->nprod; ++p)
    thr[nt++] = std::thread([w, p, sched] {
      for (int k = 0; k < w->nitems; ++k) {
        Item& it = w->items[k];
        if (it.producer != p) continue;
        yields(it.pre_yields);
        if (it.stop_mode == 1) { item_request_stop(&it); usim::np_scope np; w->stop_end_now[k] = usim_now(); }
        { usim::np_scope np; w->due_lo[k] = w->kind[k] == 2 ? (uint64_t)((int64_t)w->base + w->off_ns[k]) : usim_now() + (uint64_t)w->off_ns[k]; }
        if (w->kind[k] == 0) item_start(&it, unifex::schedule(sched));
        else {
          // (the epoll scheduler has schedule_at only: "after" is now + offset computed here)
          int64_t t = (int64_t)w->due_lo[k];
          item_start(&it, unifex::schedule_at(sched, clock_tp::from_seconds_and_nanoseconds(t / 1000000000ll, t % 1000000000ll)));
        }
        { usim::np_scope np; w->start_end_now[k] = usim_now(); }
        if (it.stop_mode >= 2) {
          if (it.stop_mode == 3) yields(it.stop_yields);
          item_request_stop(&it);
          usim::np_scope np;
          w->stop_end_now[k] = usim_now();
        }
      }
    });

  // ---- pipe I/O
  arena_box<typename T::Chan> chan_box;
  typename T::Chan* chan = &chan_box.construct(sched);
  using S = unifex::inline_scheduler;
  thr[nt++] = std::thread([w, chan] {
    unsigned char next = 1;
    for (int i = 0; i < w->nwrite; ++i) {
      IoOp& o = w->wr[i];
      yields(o.pre);
      o.buf = (unsigned char*)usim_alloc((size_t)o.len);
      for (int b = 0; b < o.len; ++b) o.buf[b] = (unsigned char)(next + b);
      auto snd = chan->write(o.buf, (size_t)o.len);
      started_op<S, decltype(snd)> op;
      op.start(&o.rec, S{}, std::move(snd));
      o.rec.wait();
      op.destroy();
      {
        usim::np_scope np;
        if (o.rec.channel == CH_VALUE) {
          KIT_CHECK(o.rec.value > 0 && o.rec.value <= o.len, "c14.bytes", "write of %d bytes reported %ld bytes written", o.len, o.rec.value);
          w->written_total += o.rec.value;
          next = (unsigned char)(next + o.rec.value);  // a short write: the rest is simply not sent
        }
      }
      usim_free(o.buf);
    }
    w->writer_done = 1;
  });
  thr[nt++] = std::thread([w, chan] {
    unsigned char expect = 1;
    for (int i = 0; i < w->nread; ++i) {
      IoOp& o = w->rd[i];
      yields(o.pre);
      o.buf = (unsigned char*)usim_alloc((size_t)o.len);
      memset(o.buf, 0xEE, (size_t)o.len);
      if (o.stop_mode == 1) o.rec.request_stop();
      auto snd = chan->read(o.buf, (size_t)o.len);
      started_op<S, decltype(snd)> op;
      op.start(&o.rec, S{}, std::move(snd));
      // a read that cannot be satisfied any more (writer finished, nothing buffered) is cancelled by the harness
      {
        struct P { OpRec* r; volatile int* wd; static int pred(void* p) { auto* q = (P*)p; return q->r->flag || *q->wd; } } p{&o.rec, &w->writer_done};
        usim_wait(&P::pred, &p);
      }
      if (!o.rec.flag) {
        yields(4);
        bool need;
        { usim::np_scope np; need = !o.rec.flag && w->read_total >= w->written_total && !o.rec.stop_begin; }
        if (need) o.rec.request_stop();
      }
      o.rec.wait();
      op.destroy();
      {
        usim::np_scope np;
        OpRec& r = o.rec;
        KIT_CHECK(r.done_tid == w->io_tid || r.in_start, "c14.wrong-thread", "read %d completed on T%d (not the io thread, not inline)", i, r.done_tid);
        if (r.channel == CH_VALUE) {
          KIT_CHECK(r.value > 0 && r.value <= o.len, "c14.bytes", "read into %d bytes reported %ld bytes", o.len, r.value);
          for (long b = 0; b < r.value; ++b)
            KIT_CHECK(o.buf[b] == (unsigned char)(expect + b), "c14.data", "read %d: byte %ld is %u, the stream has %u there (lost, duplicated or reordered data)", i, b, o.buf[b], (unsigned char)(expect + b));
          for (long b = r.value; b < o.len; ++b)
            KIT_CHECK(o.buf[b] == 0xEE, "c14.data", "read %d reported %ld bytes but wrote beyond them", i, r.value);
          expect = (unsigned char)(expect + r.value);
          w->read_total += r.value;
          usim_probe("read delivered data");
        } else if (r.channel == CH_DONE) {
          KIT_CHECK(r.stop_begin != 0, "c14.done-without-stop", "read %d completed with done although its stop was never requested", i);
          for (int b = 0; b < o.len; ++b)
            KIT_CHECK(o.buf[b] == 0xEE, "c14.data", "read %d was cancelled (done) but its buffer was written: the bytes are lost to later reads", i);
          usim_probe("read cancelled");
        } else {
          KIT_CHECK(false, "c14.errno", "read %d failed with an error although no error was injected", i);
        }
      }
      usim_free(o.buf);
    }
    w->reader_done = 1;
  });
  // stopper for reads in mode 2
  thr[nt++] = std::thread([w] {
    for (int i = 0; i < w->nread; ++i) {
      IoOp& o = w->rd[i];
      if (o.stop_mode != 2) continue;
      struct P { OpRec* r; volatile int* rd; static int pred(void* p) { auto* q = (P*)p; return q->r->start_begin != 0 || *q->rd; } } p{&o.rec, &w->reader_done};
      usim_wait(&P::pred, &p);
      if (!o.rec.start_begin) continue;
      yields(o.stop_yields);
      bool go;
      { usim::np_scope np; go = !o.rec.stop_begin; if (go) o.rec.stop_begin = seq(); }
      if (go) { o.stop.request_stop(); usim::np_scope np; o.rec.stop_end = seq(); }
    }
  });
  // ---- regular file read/written at offsets (io_uring): sequential operations against a byte-array model
  if constexpr (T::has_files) {
    if (w->nfile > 0)
      thr[nt++] = std::thread([w, sched] {
        char path[64];
        snprintf(path, sizeof path, "/dev/shm/usim-file-%d", (int)getpid());
        int keep = open(path, O_RDWR | O_CREAT | O_TRUNC | O_CLOEXEC, 0600);
        if (keep < 0) abort();
        arena_box<typename ctx_t::async_read_write_file> file;
        file.construct_with([&] { return unifex::open_file_read_write(sched, unifex::filesystem::path(path)); });
        unlink(path);
        unsigned char model[kFileCap];
        int size = 0;
        memset(model, 0, sizeof model);
        unsigned char stamp = 0x40;
        for (int i = 0; i < w->nfile; ++i) {
          FileOp& o = w->fo[i];
          yields(o.pre);
          unsigned char* buf = (unsigned char*)usim_alloc((size_t)o.len);
          if (o.is_write) for (int b = 0; b < o.len; ++b) buf[b] = (unsigned char)(stamp + b);
          else memset(buf, 0xEE, (size_t)o.len);
          if (o.stop_mode == 1) o.rec.request_stop();
          if (o.is_write) {
            auto snd = unifex::async_write_some_at(*file, (int64_t)o.off, unifex::as_bytes(unifex::span{buf, (size_t)o.len}));
            started_op<S, decltype(snd)> op;
            op.start(&o.rec, S{}, std::move(snd));
            o.rec.wait();
            op.destroy();
          } else {
            auto snd = unifex::async_read_some_at(*file, (int64_t)o.off, unifex::as_writable_bytes(unifex::span{buf, (size_t)o.len}));
            started_op<S, decltype(snd)> op;
            op.start(&o.rec, S{}, std::move(snd));
            o.rec.wait();
            op.destroy();
          }
          {
            usim::np_scope np;
            OpRec& r = o.rec;
            // what the file really holds now (read through the harness's own descriptor)
            unsigned char actual[kFileCap];
            ssize_t asz = pread(keep, actual, sizeof actual, 0);
            KIT_CHECK(r.done_tid == w->io_tid, "c14.wrong-thread", "file op %d completed on T%d, not the io thread", i, r.done_tid);
            if (r.channel == CH_VALUE) {
              if (o.is_write) {
                KIT_CHECK(r.value > 0 && r.value <= o.len, "c14.bytes", "write_at of %d bytes reported %ld", o.len, r.value);
                if (o.off > size) memset(model + size, 0, (size_t)(o.off - size));
                memcpy(model + o.off, buf, (size_t)r.value);
                if (o.off + (int)r.value > size) size = o.off + (int)r.value;
                usim_probe("file write_at completed");
              } else {
                int avail = o.off < size ? size - o.off : 0;
                int want = avail < o.len ? avail : o.len;
                KIT_CHECK(r.value >= 0 && r.value <= want && (want == 0 || r.value > 0), "c14.bytes", "read_at(off=%d,len=%d) on a %d-byte file reported %ld bytes", o.off, o.len, size, r.value);
                for (long b = 0; b < r.value; ++b)
                  KIT_CHECK(buf[b] == model[o.off + b], "c14.data", "read_at(off=%d): byte %ld is %u, the file has %u there", o.off, b, buf[b], model[o.off + b]);
                for (long b = r.value; b < o.len; ++b)
                  KIT_CHECK(buf[b] == 0xEE, "c14.data", "read_at reported %ld bytes but wrote beyond them", r.value);
                usim_probe("file read_at completed");
              }
            } else if (r.channel == CH_DONE) {
              KIT_CHECK(r.stop_begin != 0, "c14.done-without-stop", "file op %d completed with done although its stop was never requested", i);
              if (!o.is_write)
                for (int b = 0; b < o.len; ++b)
                  KIT_CHECK(buf[b] == 0xEE, "c14.data", "read_at %d completed with done but its buffer was written", i);
              usim_probe("file op cancelled");
            } else {
              KIT_CHECK(false, "c14.errno", "file op %d failed with an error although no error was injected", i);
            }
            // a write that reported done must not have changed the file; every other outcome must match the model
            KIT_CHECK(asz == size && memcmp(actual, model, (size_t)size) == 0, "c14.data", "after file op %d the file (%ld bytes) differs from the model (%d bytes): a reported result does not match what was transferred", i, (long)asz, size);
          }
          usim_free(buf);
          stamp = (unsigned char)(stamp + 0x11);
        }
        file.destroy();
        close(keep);
      });
  }
  for (int i = 0; i < nt; ++i) thr[i].join();
  wait_items_done(w->items, w->nitems);
  // ---- shut down: close the pipe, stop the loop (it must return), destroy the context
  chan_box.destroy();
  w->run_stop.request_stop();
  io.join();
  w->ctx.destroy();
  // ---- history
  {
    usim::np_scope np;
    const uint64_t slack = 2000000;
    for (int k = 0; k < w->nitems; ++k) {
      Item& it = w->items[k];
      KIT_CHECK(it.completions == 1, "c14.lost", "item %d never completed", k);
      KIT_CHECK(it.channel != CH_ERROR, "c14.lost", "item %d completed with an error", k);
      if (it.channel == CH_VALUE && it.stop_mode == 1) KIT_CHECK(false, "c14.done-without-stop", "item %d whose stop preceded start() completed with value", k);
      if (w->kind[k] != 0 && it.channel == CH_DONE && !w->timer_first) {
        uint64_t armed = w->stop_end_now[k] > w->start_end_now[k] ? w->stop_end_now[k] : w->start_end_now[k];
        if (w->stop_end_now[k] && w->start_end_now[k] && armed + slack < w->due_lo[k]) {
          KIT_CHECK(it.done_now < w->due_lo[k], "c07.cancel-not-prompt", "%s timer %d was stopped %lluns before its due time but completed only at/after it", w->ctx_name, k, (unsigned long long)(w->due_lo[k] - armed));
          usim_probe("io timer cancelled promptly");
        }
      }
      // due-time order among untouched timers that were certainly queued before the other could fire
      for (int j = 0; j < w->nitems; ++j) {
        if (j == k || !w->kind[k] || !w->kind[j]) continue;
        Item& y = w->items[j];
        if (it.channel != CH_VALUE || y.channel != CH_VALUE || it.stop_begin || y.stop_begin) continue;
        // ties: equal due times submitted by the same producer (hence queued in that order) complete in submission order
        if (w->kind[k] == 2 && w->kind[j] == 2 && w->due_lo[k] == w->due_lo[j] && k < j && it.producer == y.producer) {
          KIT_CHECK(it.done_seq < y.done_seq, "c07.order", "%s timers %d and %d have the same due time and were submitted in that order by one thread, but %d completed first", w->ctx_name, k, j, j);
          usim_probe("io timer tie pair checked");
        }
        if (w->kind[k] == 2 && w->kind[j] == 2 && w->due_lo[k] < w->due_lo[j] && w->start_end_now[k] + slack < w->due_lo[j]) {
          KIT_CHECK(it.done_seq < y.done_seq, "c07.order", "%s timer %d (due earlier) completed after timer %d", w->ctx_name, k, j);
          usim_probe("io timer order pair checked");
        }
      }
    }
    KIT_CHECK(w->read_total <= w->written_total, "c14.data", "%ld bytes read but only %ld written", w->read_total, w->written_total);
  }
  for (int k = 0; k < w->nitems; ++k) item_cleanup(&w->items[k]);
  { usim::np_scope np; delete w; }
}


// ---- io_uring under ring pressure: more concurrently parked reads than the completion queue has entries (512):
// the surplus waits in pendingIoQueue_; then every read is cancelled. All must complete (with done).
void body_uring_flood(void*) {
  using T = uring_traits;
  using ctx_t = T::ctx_t;
  struct FW {
    arena_box<ctx_t> ctx;
    unifex::inplace_stop_source run_stop;
    int n = 0;
    OpRec* rec = nullptr;
    unifex::inplace_stop_source* stops = nullptr;
    unsigned char* bufs = nullptr;
  };
  FW* w;
  { usim::np_scope np; w = new FW(); }
  static const int sizes[] = {40, 200, 500, 511, 512, 513, 520, 600};
  w->n = sizes[draw(8)];
  int nstoppers = draw_range(1, 2);
  bool all_at_once = draw(2);
  { usim::np_scope np; w->rec = new OpRec[w->n]; w->stops = new unifex::inplace_stop_source[w->n]; }
  w->bufs = (unsigned char*)usim_alloc((size_t)w->n);
  usim_sample("io_uring_flood: reads=%d stoppers=%d", w->n, nstoppers);
  w->ctx.construct();
  auto sched = w->ctx->get_scheduler();
  int io_tid = -1;
  std::thread io([w, &io_tid] { { usim::np_scope np; io_tid = usim_here(); } w->ctx->run(w->run_stop.get_token()); });
  arena_box<T::Chan> chan_box;
  T::Chan* chan = &chan_box.construct(sched);
  using S = unifex::inline_scheduler;
  using Snd = decltype(chan->read(w->bufs, 1));
  started_op<S, Snd>* ops;
  { usim::np_scope np; ops = new started_op<S, Snd>[w->n]; }
  for (int i = 0; i < w->n; ++i) {
    w->rec[i].what = "async_read_some_at";
    w->rec[i].a = i;
    w->rec[i].oracle_double = "c14.double";
    w->rec[i].stop = &w->stops[i];
    ops[i].start(&w->rec[i], S{}, chan->read(w->bufs + i, 1));
    if (!all_at_once && i % 64 == 63) yields(3);
  }
  yields(draw_small(20));
  std::thread stoppers[2];
  for (int k = 0; k < nstoppers; ++k)
    stoppers[k] = std::thread([w, k, nstoppers] {
      for (int i = k; i < w->n; i += nstoppers) w->rec[i].request_stop();
    });
  for (int k = 0; k < nstoppers; ++k) stoppers[k].join();
  for (int i = 0; i < w->n; ++i) { w->rec[i].wait(); ops[i].destroy(); }
  chan_box.destroy();
  w->run_stop.request_stop();
  io.join();
  w->ctx.destroy();
  {
    usim::np_scope np;
    for (int i = 0; i < w->n; ++i) {
      KIT_CHECK(w->rec[i].completions == 1, "c14.lost", "read %d of %d never completed", i, w->n);
      KIT_CHECK(w->rec[i].channel == CH_DONE, "c14.done-without-stop", "read %d on an empty pipe completed with %s after its stop request", i, ch_name(w->rec[i].channel));
    }
    usim_probe(w->n > 512 ? "more reads parked than completion-queue entries" : "ring not exhausted");
    delete[] ops;
    delete[] w->rec;
    delete[] w->stops;
  }
  usim_free(w->bufs);
  { usim::np_scope np; delete w; }
}


// ---- io_epoll with a full pipe: async_write_some parks (EAGAIN -> EPOLLOUT registration), is cancelled or woken by a drain,
// is destroyed, and a second write on the same descriptor follows. The pipe is shrunk to one page, filled and drained
// behind the library's back with raw read()/write() on its descriptors. Oracles: exactly-once completion, done only after a
// stop request, a cancelled write transferred nothing, the byte stream seen by the drains is fill + A's reported bytes +
// B's reported bytes, no epoll registration outlives the operation it points to (c14.stale-registration, fd layer).
void body_epoll_wfull(void*) {
  using T = epoll_traits;
  using ctx_t = T::ctx_t;
  struct WOp { int len = 1; int stop_mode = 0; int stop_yields = 0; OpRec rec; unifex::inplace_stop_source stop; unsigned char* buf = nullptr; };
  struct FW {
    arena_box<ctx_t> ctx;
    unifex::inplace_stop_source run_stop;
    WOp a, b;
    int room = 0;          // bytes left free before A starts (0: A parks)
    int drain1_yields = 0; // when the first drain happens relative to A's start (-1: no drain before A has completed)
    bool second = true;    // a second write B follows
    bool refill = true;    // the pipe is filled again before B (so that B parks too)
    int drain2_yields = 0;
    int fds[2] = {-1, -1};
    hvec<unsigned char> stream;    // everything the drains read, in order
    hvec<unsigned char> expected;  // what the stream must be
    volatile int a_over = 0, b_started = 0, b_over = 0;
    int io_tid = -1;
  };
  FW* w;
  { usim::np_scope np; w = new FW(); }
  w->room = draw(4) == 0 ? 1 + draw(60) : 0;
  w->a.len = 1 + draw(48);
  { int sm = draw(6); w->a.stop_mode = sm < 1 ? 0 : sm < 2 ? 1 : 2; }
  w->a.stop_yields = draw_small(14);
  w->drain1_yields = w->a.stop_mode == 0 ? draw_small(14) : (draw(2) ? draw_small(14) : -1);
  w->second = draw(4) != 0;
  w->refill = draw(3) != 0;
  w->b.len = 1 + draw(48);
  { int sm = draw(6); w->b.stop_mode = sm < 4 ? 0 : 2; }
  w->b.stop_yields = draw_small(14);
  w->drain2_yields = draw_small(14);
  if (draw(3) == 0) usim_fault_rate(USIM_F_CAS_WEAK, 100);
  if (draw(4) == 0) usim_fault_rate(USIM_F_SYSCALL, 60);
  usim_sample("io_epoll_wfull: room=%d A(len=%d stop=%d/%d) drain1=%d B=%d(len=%d stop=%d/%d refill=%d) drain2=%d", w->room, w->a.len, w->a.stop_mode, w->a.stop_yields, w->drain1_yields,
              (int)w->second, w->b.len, w->b.stop_mode, w->b.stop_yields, (int)w->refill, w->drain2_yields);
  for (WOp* o : {&w->a, &w->b}) {
    o->rec.what = "async_write_some";
    o->rec.a = o == &w->a ? 0 : 1;
    o->rec.oracle_double = "c14.double";
    o->rec.stop = &o->stop;
  }
  w->ctx.construct();
  auto sched = w->ctx->get_scheduler();
  std::thread io([w] { { usim::np_scope np; w->io_tid = usim_here(); } w->ctx->run(w->run_stop.get_token()); });
  arena_box<T::Chan> chan_box;
  T::Chan* chan = &chan_box.construct(sched);
  usim_last_pipe(w->fds);
  if (fcntl(w->fds[1], F_SETPIPE_SZ, 4096) < 0) abort();
  unsigned char fillc = 1;
  // raw helpers (interposed read()/write(): scheduling points that wake the simulated epoll_wait)
  auto fill = [w, &fillc](int leave) {
    unsigned char chunk[256];
    long total = 0;
    for (;;) {
      int n = 256;
      for (int i = 0; i < n; ++i) chunk[i] = (unsigned char)(fillc + i);
      ssize_t r = write(w->fds[1], chunk, (size_t)n);
      if (r <= 0) break;
      { usim::np_scope np; for (ssize_t i = 0; i < r; ++i) w->expected.push_back(chunk[i]); }
      fillc = (unsigned char)(fillc + r);
      total += r;
    }
    (void)leave;
    return total;
  };
  auto drain = [w](long limit) {
    unsigned char chunk[512];
    long total = 0;
    while (limit < 0 || total < limit) {
      size_t want = sizeof chunk;
      if (limit >= 0 && (long)want > limit - total) want = (size_t)(limit - total);
      ssize_t r = read(w->fds[0], chunk, want);
      if (r <= 0) break;
      { usim::np_scope np; for (ssize_t i = 0; i < r; ++i) w->stream.push_back(chunk[i]); }
      total += r;
    }
    return total;
  };
  long filled = fill(0);
  if (filled != 4096) { usim::np_scope np; KIT_CHECK(false, "harness.pipe", "pipe of one page took %ld bytes", filled); }
  // room > 0: the page has to be emptied completely before the pipe accepts data again (a partly read page stays "full"),
  // so "room" means: empty pipe, A completes inline
  if (w->room) drain(-1);
  using S = unifex::inline_scheduler;
  auto run_write = [w, chan](WOp& o, unsigned char pat, volatile int* started) {
    o.buf = (unsigned char*)usim_alloc((size_t)o.len);
    for (int b = 0; b < o.len; ++b) o.buf[b] = (unsigned char)(pat + b);
    if (o.stop_mode == 1) o.rec.request_stop();
    auto snd = chan->write(o.buf, (size_t)o.len);
    started_op<S, decltype(snd)> op;
    op.start(&o.rec, S{}, std::move(snd));
    if (started) *started = 1;
    o.rec.wait();
    op.destroy();   // (arena free: the fd layer checks that no epoll registration points into the operation)
    {
      usim::np_scope np;
      OpRec& r = o.rec;
      KIT_CHECK(r.done_tid == w->io_tid || r.in_start, "c14.wrong-thread", "write %ld completed on T%d (not the io thread, not inline)", r.a, r.done_tid);
      if (r.channel == CH_VALUE) {
        KIT_CHECK(r.value > 0 && r.value <= o.len, "c14.bytes", "write of %d bytes reported %ld bytes written", o.len, r.value);
        for (long b = 0; b < r.value; ++b) w->expected.push_back(o.buf[b]);
        usim_probe(r.in_start ? "write completed inline" : "parked write woken by a drain");
      } else if (r.channel == CH_DONE) {
        KIT_CHECK(r.stop_begin != 0, "c14.done-without-stop", "write %ld completed with done although its stop was never requested", r.a);
        usim_probe("parked write cancelled");
      } else {
        KIT_CHECK(false, "c14.errno", "write %ld failed with an error although no error was injected", r.a);
      }
    }
    usim_free(o.buf);
  };
  std::thread writer([w, &run_write, &fill, &drain] {
    run_write(w->a, 0x40, nullptr);
    w->a_over = 1;
    if (w->second) {
      // B must park or complete inline on a well-defined pipe state: full again, or empty
      if (w->refill) { drain(-1); long f = fill(0); (void)f; }
      else drain(-1);
      run_write(w->b, 0x90, &w->b_started);
    }
    w->b_over = 1;
  });
  std::thread stopper([w] {
    for (WOp* o : {&w->a, &w->b}) {
      if (o == &w->b && !w->second) break;
      if (o->stop_mode != 2) continue;
      struct P { OpRec* r; volatile int* over; static int pred(void* p) { auto* q = (P*)p; return q->r->start_begin != 0 || *q->over; } } p{&o->rec, &w->b_over};
      usim_wait(&P::pred, &p);
      if (!o->rec.start_begin) continue;
      yields(o->stop_yields);
      bool go;
      { usim::np_scope np; go = !o->rec.stop_begin; if (go) o->rec.stop_begin = seq(); }
      if (go) { o->stop.request_stop(); usim::np_scope np; o->rec.stop_end = seq(); }
    }
  });
  std::thread drainer([w, &drain] {
    // first drain: wakes a parked A (unless the plan leaves A to its stop request)
    {
      struct P { OpRec* r; static int pred(void* p) { return ((P*)p)->r->start_begin != 0; } } p{&w->a.rec};
      usim_wait(&P::pred, &p);
      if (w->drain1_yields >= 0) { yields(w->drain1_yields); if (!w->a_over) drain(-1); }
      else if (w->a.stop_mode == 0) drain(-1);
    }
    if (w->second) {
      struct P { volatile int* s; volatile int* o; static int pred(void* p) { auto* q = (P*)p; return *q->s || *q->o; } } p{&w->b_started, &w->b_over};
      usim_wait(&P::pred, &p);
      yields(w->drain2_yields);
      // B without a stop request needs the drain to complete at all; with one, the drain races the stop
      if (!w->b_over) drain(-1);
    }
  });
  writer.join();
  stopper.join();
  drainer.join();
  drain(-1);
  chan_box.destroy();
  w->run_stop.request_stop();
  io.join();
  w->ctx.destroy();
  {
    usim::np_scope np;
    KIT_CHECK(w->a.rec.completions == 1, "c14.lost", "write A never completed");
    if (w->second) KIT_CHECK(w->b.rec.completions == 1, "c14.lost", "write B never completed");
    bool same = w->stream.size() == w->expected.size();
    size_t at = 0;
    for (; same && at < w->stream.size(); ++at) if (w->stream[at] != w->expected[at]) { same = false; break; }
    KIT_CHECK(same, "c14.data", "the bytes that came out of the pipe (%zu) differ from fill + reported writes (%zu) at offset %zu: a reported result does not match what was transferred (or a cancelled write transferred data)",
              w->stream.size(), w->expected.size(), at);
    usim_probe("full-pipe stream checked");
  }
  { usim::np_scope np; delete w; }
}

}  // namespace

int main(int argc, char** argv) {
  static const usim_workload table[] = {{"io_epoll", body_io<epoll_traits>}, {"io_uring", body_io<uring_traits>}, {"io_uring_flood", body_uring_flood}, {"io_epoll_wfull", body_epoll_wfull}};
  return usim_main(argc, argv, table, 4);
}
