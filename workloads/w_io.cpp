// w_io — C14 (io_epoll_context) and the I/O-context timers of C07.
// The library's epoll code runs unmodified on the real kernel's epoll/eventfd/pipe objects;
// time is virtual (sim/rt/fdlayer.cpp). One run()-thread with a stop token; remote producers
// scheduling items and timers; a reader and a writer actor doing sequential async_read_some /
// async_write_some on a pipe with per-operation stop requests; peer close.
// See DESIGN.md §8 C14/C07. The io_uring context is not driven (no kernel model was built).
#include <kit/base.hpp>
#include <kit/items.hpp>
#include <kit/recv.hpp>

#include <unifex/inline_scheduler.hpp>
#include <unifex/linux/io_epoll_context.hpp>
#include <unifex/scheduler_concepts.hpp>
#include <unifex/span.hpp>

#include <chrono>

extern "C" int usim_epoll_registrations_in(const void* p, size_t n);

using namespace kit;
using ctx_t = unifex::linuxos::io_epoll_context;

namespace {

constexpr int kMaxItems = 16;
constexpr int kMaxIo = 6;

struct IoOp {
  int len = 1;
  int stop_mode = 0;  // 0 none, 1 before start, 2 stopper after yields
  int stop_yields = 0;
  int pre = 0;
  OpRec rec;
  unifex::inplace_stop_source stop;
  unsigned char* buf = nullptr;   // arena buffer (freed after completion)
  unsigned char before[64];
};

struct World {
  arena_box<ctx_t> ctx;
  unifex::inplace_stop_source run_stop;
  int io_tid = -1;
  // scheduled items / timers
  Item items[kMaxItems];
  unifex::inplace_stop_source stops[kMaxItems];
  int nitems = 0;
  int nprod = 1;
  int kind[kMaxItems];          // 0 schedule, 1 schedule_after, 2 schedule_at
  int64_t off_ns[kMaxItems];
  uint64_t due_lo[kMaxItems], stop_end_now[kMaxItems], start_end_now[kMaxItems];
  uint64_t base = 0;
  // pipe
  int nread = 0, nwrite = 0;
  IoOp rd[kMaxIo], wr[kMaxIo];
  bool close_writer_at_end = true;
  long written_total = 0, read_total = 0;
  volatile int writer_done = 0, reader_done = 0;
  bool timer_first = false;
};

void io_hook(Item* it, void* arg) {
  World* w = (World*)arg;
  usim::np_scope np;
  KIT_CHECK(it->done_tid == w->io_tid, "c14.wrong-thread", "item %d completed on T%d, not on the thread inside run()", it->id, it->done_tid);
  if (it->channel == CH_VALUE && w->kind[it->id] != 0)
    KIT_CHECK(it->done_now >= w->due_lo[it->id], "c07.early", "io_epoll timer %d completed with value %lluns before its due time", it->id, (unsigned long long)(w->due_lo[it->id] - it->done_now));
}

void body_epoll(void*) {
  World* w;
  { usim::np_scope np; w = new World(); }
  // ---- plan
  w->nprod = draw_range(1, 3);
  w->nitems = draw_range(0, 10);
  static const int64_t offs[] = {0, 0, 20000, 50000, 50000, 200000, 1000000, 3600000000000ll};
  for (int k = 0; k < w->nitems; ++k) {
    Item& it = w->items[k];
    it.id = k;
    it.oracle_prefix = "c14";
    it.stop = &w->stops[k];
    it.producer = draw(w->nprod);
    it.pre_yields = draw_small(6);
    it.free_in_completion = draw(5) != 0;
    it.on_complete = &io_hook;
    it.hook_arg = w;
    int kd = draw(4);
    w->kind[k] = kd < 2 ? 0 : kd - 1;
    w->off_ns[k] = offs[draw((int)(sizeof offs / sizeof offs[0]))];
    int sm = draw(8);
    it.stop_mode = sm < 4 ? 0 : sm < 5 ? 1 : sm < 7 ? 2 : 3;
    if (w->kind[k] != 0 && w->off_ns[k] > 2000000000ll && it.stop_mode == 0) it.stop_mode = 3;  // an hour-long timer gets cancelled
    it.stop_yields = draw_small(12);
  }
  w->nread = draw_range(0, kMaxIo);
  w->nwrite = draw_range(0, kMaxIo);
  for (int i = 0; i < kMaxIo; ++i) {
    for (IoOp* o : {&w->rd[i], &w->wr[i]}) {
      o->len = 1 + draw(48);
      int sm = draw(6);
      o->stop_mode = sm < 4 ? 0 : sm < 5 ? 1 : 2;
      o->stop_yields = draw_small(12);
      o->pre = draw_small(6);
      o->rec.a = i;
      o->rec.oracle_double = "c14.double";
      o->rec.stop = &o->stop;
    }
    w->rd[i].rec.what = "async_read_some";
    w->wr[i].rec.what = "async_write_some";
    w->wr[i].stop_mode = 0;  // pipe writes below capacity complete inline; cancellation is exercised on reads
  }
  w->timer_first = draw(4) == 0;
  if (w->timer_first) usim_fault_rate(USIM_F_TIMER_FIRST, 20);
  if (draw(3) == 0) usim_fault_rate(USIM_F_SYSCALL, 60);
  if (draw(3) == 0) usim_fault_rate(USIM_F_CAS_WEAK, 100);
  if (draw(3) == 0) usim_fault_rate(USIM_F_CLOCK_JITTER, 200);
  usim_sample("io_epoll: producers=%d items=%d reads=%d writes=%d", w->nprod, w->nitems, w->nread, w->nwrite);

  w->ctx.construct();
  auto sched = w->ctx->get_scheduler();
  std::thread io([w] {
    { usim::np_scope np; w->io_tid = usim_here(); }
    w->ctx->run(w->run_stop.get_token());
  });
  w->base = usim_now() + 100000;
  using clock_tp = decltype(unifex::now(sched));

  std::thread thr[8];
  int nt = 0;
  for (int p = 0; p < w->nprod; ++p)
    thr[nt++] = std::thread([w, p, sched] {
      for (int k = 0; k < w->nitems; ++k) {
        Item& it = w->items[k];
        if (it.producer != p) continue;
        yields(it.pre_yields);
        if (it.stop_mode == 1) { item_request_stop(&it); usim::np_scope np; w->stop_end_now[k] = usim_now(); }
        { usim::np_scope np; w->due_lo[k] = w->kind[k] == 2 ? (uint64_t)((int64_t)w->base + w->off_ns[k]) : usim_now() + (uint64_t)w->off_ns[k]; }
        if (w->kind[k] == 0) item_start(&it, unifex::schedule(sched));
        else {
          // (the epoll scheduler has schedule_at only: "after" is now + offset computed here)
          int64_t t = (int64_t)w->due_lo[k];
          item_start(&it, unifex::schedule_at(sched, clock_tp::from_seconds_and_nanoseconds(t / 1000000000ll, t % 1000000000ll)));
        }
        { usim::np_scope np; w->start_end_now[k] = usim_now(); }
        if (it.stop_mode >= 2) {
          if (it.stop_mode == 3) yields(it.stop_yields);
          item_request_stop(&it);
          usim::np_scope np;
          w->stop_end_now[k] = usim_now();
        }
      }
    });

  // ---- pipe I/O
  auto pipe = unifex::open_pipe(sched);
  auto* reader = &pipe.first;
  auto* writer = &pipe.second;
  using S = unifex::inline_scheduler;
  thr[nt++] = std::thread([w, writer] {
    unsigned char next = 1;
    for (int i = 0; i < w->nwrite; ++i) {
      IoOp& o = w->wr[i];
      yields(o.pre);
      o.buf = (unsigned char*)usim_alloc((size_t)o.len);
      for (int b = 0; b < o.len; ++b) o.buf[b] = (unsigned char)(next + b);
      auto snd = unifex::async_write_some(*writer, unifex::as_bytes(unifex::span{o.buf, (size_t)o.len}));
      started_op<S, decltype(snd)> op;
      op.start(&o.rec, S{}, std::move(snd));
      o.rec.wait();
      op.destroy();
      {
        usim::np_scope np;
        if (o.rec.channel == CH_VALUE) {
          KIT_CHECK(o.rec.value > 0 && o.rec.value <= o.len, "c14.bytes", "write of %d bytes reported %ld bytes written", o.len, o.rec.value);
          w->written_total += o.rec.value;
          next = (unsigned char)(next + o.rec.value);  // a short write: the rest is simply not sent
        }
      }
      usim_free(o.buf);
    }
    w->writer_done = 1;
  });
  thr[nt++] = std::thread([w, reader] {
    unsigned char expect = 1;
    for (int i = 0; i < w->nread; ++i) {
      IoOp& o = w->rd[i];
      yields(o.pre);
      o.buf = (unsigned char*)usim_alloc((size_t)o.len);
      memset(o.buf, 0xEE, (size_t)o.len);
      if (o.stop_mode == 1) o.rec.request_stop();
      auto snd = unifex::async_read_some(*reader, unifex::as_writable_bytes(unifex::span{o.buf, (size_t)o.len}));
      started_op<S, decltype(snd)> op;
      op.start(&o.rec, S{}, std::move(snd));
      // a read that cannot be satisfied any more (writer finished, nothing buffered) is cancelled by the harness
      {
        struct P { OpRec* r; volatile int* wd; static int pred(void* p) { auto* q = (P*)p; return q->r->flag || *q->wd; } } p{&o.rec, &w->writer_done};
        usim_wait(&P::pred, &p);
      }
      if (!o.rec.flag) {
        yields(4);
        bool need;
        { usim::np_scope np; need = !o.rec.flag && w->read_total >= w->written_total && !o.rec.stop_begin; }
        if (need) o.rec.request_stop();
      }
      o.rec.wait();
      op.destroy();
      {
        usim::np_scope np;
        OpRec& r = o.rec;
        KIT_CHECK(r.done_tid == w->io_tid || r.in_start, "c14.wrong-thread", "read %d completed on T%d (not the io thread, not inline)", i, r.done_tid);
        if (r.channel == CH_VALUE) {
          KIT_CHECK(r.value > 0 && r.value <= o.len, "c14.bytes", "read into %d bytes reported %ld bytes", o.len, r.value);
          for (long b = 0; b < r.value; ++b)
            KIT_CHECK(o.buf[b] == (unsigned char)(expect + b), "c14.data", "read %d: byte %ld is %u, the stream has %u there (lost, duplicated or reordered data)", i, b, o.buf[b], (unsigned char)(expect + b));
          for (long b = r.value; b < o.len; ++b)
            KIT_CHECK(o.buf[b] == 0xEE, "c14.data", "read %d reported %ld bytes but wrote beyond them", i, r.value);
          expect = (unsigned char)(expect + r.value);
          w->read_total += r.value;
          usim_probe("read delivered data");
        } else if (r.channel == CH_DONE) {
          KIT_CHECK(r.stop_begin != 0, "c14.done-without-stop", "read %d completed with done although its stop was never requested", i);
          for (int b = 0; b < o.len; ++b)
            KIT_CHECK(o.buf[b] == 0xEE, "c14.data", "read %d was cancelled (done) but its buffer was written: the bytes are lost to later reads", i);
          usim_probe("read cancelled");
        } else {
          KIT_CHECK(false, "c14.errno", "read %d failed with an error although no error was injected", i);
        }
      }
      usim_free(o.buf);
    }
    w->reader_done = 1;
  });
  // stopper for reads in mode 2
  thr[nt++] = std::thread([w] {
    for (int i = 0; i < w->nread; ++i) {
      IoOp& o = w->rd[i];
      if (o.stop_mode != 2) continue;
      struct P { OpRec* r; volatile int* rd; static int pred(void* p) { auto* q = (P*)p; return q->r->start_begin != 0 || *q->rd; } } p{&o.rec, &w->reader_done};
      usim_wait(&P::pred, &p);
      if (!o.rec.start_begin) continue;
      yields(o.stop_yields);
      bool go;
      { usim::np_scope np; go = !o.rec.stop_begin; if (go) o.rec.stop_begin = seq(); }
      if (go) { o.stop.request_stop(); usim::np_scope np; o.rec.stop_end = seq(); }
    }
  });
  for (int i = 0; i < nt; ++i) thr[i].join();
  wait_items_done(w->items, w->nitems);
  // ---- shut down: close the pipe, stop the loop (it must return), destroy the context
  { auto tmp = std::move(pipe); }
  w->run_stop.request_stop();
  io.join();
  w->ctx.destroy();
  // ---- history
  {
    usim::np_scope np;
    const uint64_t slack = 2000000;
    for (int k = 0; k < w->nitems; ++k) {
      Item& it = w->items[k];
      KIT_CHECK(it.completions == 1, "c14.lost", "item %d never completed", k);
      KIT_CHECK(it.channel != CH_ERROR, "c14.lost", "item %d completed with an error", k);
      if (it.channel == CH_VALUE && it.stop_mode == 1) KIT_CHECK(false, "c14.done-without-stop", "item %d whose stop preceded start() completed with value", k);
      if (w->kind[k] != 0 && it.channel == CH_DONE && !w->timer_first) {
        uint64_t armed = w->stop_end_now[k] > w->start_end_now[k] ? w->stop_end_now[k] : w->start_end_now[k];
        if (w->stop_end_now[k] && w->start_end_now[k] && armed + slack < w->due_lo[k]) {
          KIT_CHECK(it.done_now < w->due_lo[k], "c07.cancel-not-prompt", "io_epoll timer %d was stopped %lluns before its due time but completed only at/after it", k, (unsigned long long)(w->due_lo[k] - armed));
          usim_probe("io timer cancelled promptly");
        }
      }
      // due-time order among untouched timers that were certainly queued before the other could fire
      for (int j = 0; j < w->nitems; ++j) {
        if (j == k || !w->kind[k] || !w->kind[j]) continue;
        Item& y = w->items[j];
        if (it.channel != CH_VALUE || y.channel != CH_VALUE || it.stop_begin || y.stop_begin) continue;
        if (w->kind[k] == 2 && w->kind[j] == 2 && w->due_lo[k] < w->due_lo[j] && w->start_end_now[k] + slack < w->due_lo[j]) {
          KIT_CHECK(it.done_seq < y.done_seq, "c07.order", "io_epoll timer %d (due earlier) completed after timer %d", k, j);
          usim_probe("io timer order pair checked");
        }
      }
    }
    KIT_CHECK(w->read_total <= w->written_total, "c14.data", "%ld bytes read but only %ld written", w->read_total, w->written_total);
  }
  for (int k = 0; k < w->nitems; ++k) item_cleanup(&w->items[k]);
  { usim::np_scope np; delete w; }
}

}  // namespace

int main(int argc, char** argv) {
  static const usim_workload table[] = {{"io_epoll", body_epoll}};
  return usim_main(argc, argv, table, 1);
}
