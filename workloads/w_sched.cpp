// w_sched — C06: schedulers run every scheduled item once, on their own context, losing none.
// Real code: manual_event_loop, single_thread_context, static_thread_pool,
// timed_single_thread_context::schedule(), new_thread_context, trampoline_scheduler,
// inline_scheduler and the intrusive queues under them. See DESIGN.md §8 C06.
#include <kit/base.hpp>
#include <kit/items.hpp>

#include <unifex/inline_scheduler.hpp>
#include <unifex/manual_event_loop.hpp>
#include <unifex/new_thread_context.hpp>
#include <unifex/scheduler_concepts.hpp>
#include <unifex/single_thread_context.hpp>
#include <unifex/static_thread_pool.hpp>
#include <unifex/timed_single_thread_context.hpp>
#include <unifex/trampoline_scheduler.hpp>



using namespace kit;

namespace {

constexpr int kMaxItems = 36;
constexpr int kMaxProd = 4;

struct World {
  Item items[kMaxItems];
  unifex::inplace_stop_source stops[kMaxItems];
  int nitems = 0;
  int nprod = 1;
  int per_prod[kMaxProd] = {0, 0, 0, 0};
  int ctx_kind = 0;
  int nrunners = 1;
  int pool_threads = 1;
  bool nostop_receiver = false;
  int runner_tid[2] = {-1, -1};
  int prod_tid[kMaxProd] = {-1, -1, -1, -1};
  std::thread::id ctx_thread{};
  bool far_timer[kMaxItems] = {};  // timed context: the item is a schedule_after(1h) that gets cancelled, queued among the plain items
};

void plan_items(World* w) {
  w->nprod = draw_range(1, kMaxProd);
  int k = 0;
  for (int p = 0; p < w->nprod; ++p) {
    w->per_prod[p] = draw_range(1, 9);
    for (int j = 0; j < w->per_prod[p] && k < kMaxItems; ++j, ++k) {
      Item& it = w->items[k];
      it.id = k;
      it.producer = p;
      it.stop = &w->stops[k];
      int sm = draw(8);
      it.stop_mode = sm < 5 ? 0 : sm - 4;  // 0 none, 1 before start, 2 after start, 3 after start + yields
      it.stop_yields = draw_small(8);
      it.pre_yields = draw_small(4);
      it.free_in_completion = draw(4) != 0;
    }
  }
  w->nitems = k;
}

template <class Sched>
void producer(World* w, int p, Sched sched) {
  { usim::np_scope np; w->prod_tid[p] = usim_here(); }
  for (int k = 0; k < w->nitems; ++k) {
    Item& it = w->items[k];
    if (it.producer != p) continue;
    yields(it.pre_yields);
    if (it.stop_mode == 1) item_request_stop(&it);
    if constexpr (std::is_same_v<Sched, decltype(std::declval<unifex::timed_single_thread_context&>().get_scheduler())>) {
      if (w->far_timer[k]) item_start(&it, unifex::schedule_after(sched, std::chrono::hours(1)));
      else item_start(&it, unifex::schedule(sched));
    } else if (w->nostop_receiver && it.stop_mode == 0)
      item_start<ItemReceiverNoStop>(&it, unifex::schedule(sched));
    else
      item_start(&it, unifex::schedule(sched));
    if (it.stop_mode >= 2) {
      if (it.stop_mode == 3) yields(it.stop_yields);
      bool done;
      { usim::np_scope np; done = it.completions != 0; }
      // requesting stop on a source whose operation may already have completed is allowed:
      // the source outlives the operation
      (void)done;
      item_request_stop(&it);
    }
  }
}

// oracles common to every context; `single` = single-threaded FIFO context
void final_checks(World* w, bool single, bool fifo_cross) {
  usim::np_scope np;
  for (int k = 0; k < w->nitems; ++k) {
    Item& it = w->items[k];
    KIT_CHECK(it.start_begin != 0, "c06.lost", "harness: item %d never started", k);
    KIT_CHECK(it.completions == 1, "c06.lost", "item %d was accepted by the context but never completed (lost)", k);
    if (it.channel == CH_DONE)
      KIT_CHECK(it.stop_begin && it.stop_begin < it.done_seq, "c06.done-without-stop", "item %d completed with done before stop was requested", k);
    if (it.channel == CH_VALUE && it.stop_mode == 1)
      KIT_CHECK(false, "c06.value-after-stop", "item %d whose stop was requested before start() completed with value", k);
    KIT_CHECK(it.channel != CH_ERROR, "c06.lost", "item %d completed with an unexpected error", k);
    if (it.channel == CH_VALUE && it.stop_end && it.stop_end < it.start_begin) usim_probe("stop before start honoured");
    if (it.channel == CH_DONE && it.stop_mode >= 2) usim_probe("stop after start produced done");
    if (it.channel == CH_VALUE && it.stop_mode >= 2) usim_probe("stop after start lost the race (value)");
  }
  if (single) {
    // FIFO: per producer, and a≺b whenever start(a) returned before start(b) was called
    for (int a = 0; a < w->nitems; ++a)
      for (int b = 0; b < w->nitems; ++b) {
        if (a == b) continue;
        Item &x = w->items[a], &y = w->items[b];
        bool before = (x.producer == y.producer && a < b) || (fifo_cross && x.start_end < y.start_begin);
        if (before)
          KIT_CHECK(x.done_seq < y.done_seq, "c06.fifo", "item %d was enqueued before item %d but completed after it", a, b);
      }
  }
}

void check_context_thread(World* w, const char* what) {
  usim::np_scope np;
  for (int k = 0; k < w->nitems; ++k) {
    Item& it = w->items[k];
    if (it.channel == CH_VALUE || it.channel == CH_DONE)
      KIT_CHECK(it.done_thread == w->ctx_thread, "c06.wrong-thread", "item %d completed on T%d which is not the thread of the %s", k, it.done_tid, what);
  }
}

void cleanup_items(World* w) {
  for (int k = 0; k < w->nitems; ++k) item_cleanup(&w->items[k]);
}

template <class Sched>
void run_producers(World* w, Sched sched) {
  std::thread thr[kMaxProd];
  for (int p = 0; p < w->nprod; ++p) thr[p] = std::thread([w, p, sched] { producer(w, p, sched); });
  for (int p = 0; p < w->nprod; ++p) thr[p].join();
}

void sample(World* w, const char* ctx) {
  usim::np_scope np;
  char buf[600];
  int o = snprintf(buf, sizeof buf, "%s: producers=%d items=[", ctx, w->nprod);
  for (int k = 0; k < w->nitems && o < 520; ++k)
    o += snprintf(buf + o, sizeof buf - o, "%s%d:p%d s%d", k ? " " : "", k, w->items[k].producer, w->items[k].stop_mode);
  usim_sample("%s] runners=%d pool=%d", buf, w->nrunners, w->pool_threads);
}

World* new_world() {
  usim::np_scope np;
  return new World();
}
void del_world(World* w) {
  usim::np_scope np;
  delete w;
}

void faults() {
  if (draw(3) == 0) usim_fault_rate(USIM_F_COND_SPURIOUS, 150);
  if (draw(4) == 0) usim_fault_rate(USIM_F_CAS_WEAK, 100);
}

// ---------------------------------------------------------------- manual_event_loop
void body_manual(void*) {
  World* w = new_world();
  plan_items(w);
  w->nrunners = draw_range(1, 2);
  faults();
  sample(w, "manual_event_loop");
  arena_box<unifex::manual_event_loop> loop;
  loop.construct();
  std::thread runners[2];
  for (int r = 0; r < w->nrunners; ++r)
    runners[r] = std::thread([w, r, &loop] {
      { usim::np_scope np; w->runner_tid[r] = usim_here(); }
      loop->run();
    });
  bool quiesce_first = draw_bool();
  run_producers(w, loop->get_scheduler());
  // Half of the runs: every accepted item must run without stop() having to wake the loop
  // (a wake-up lost between enqueue and the runner going idle shows up as a deadlock here).
  if (quiesce_first) { wait_items_done(w->items, w->nitems); usim_probe("quiescence awaited before stop"); }
  // precondition of stop(): every start() has returned. It races the runners' empty-check/wait.
  loop->stop();
  for (int r = 0; r < w->nrunners; ++r) runners[r].join();
  {
    usim::np_scope np;
    for (int k = 0; k < w->nitems; ++k) {
      Item& it = w->items[k];
      if (it.completions)
        KIT_CHECK(it.done_tid == w->runner_tid[0] || it.done_tid == w->runner_tid[1], "c06.wrong-thread",
                  "item %d completed on T%d which is not inside run()", k, it.done_tid);
    }
  }
  final_checks(w, w->nrunners == 1, true);
  cleanup_items(w);
  loop.destroy();
  del_world(w);
}

// ---------------------------------------------------------------- single_thread_context
void body_single(void*) {
  World* w = new_world();
  plan_items(w);
  faults();
  sample(w, "single_thread_context");
  arena_box<unifex::single_thread_context> ctx;
  ctx.construct();
  w->ctx_thread = ctx->get_thread_id();
  bool quiesce_first = draw_bool();
  run_producers(w, ctx->get_scheduler());
  if (quiesce_first) { wait_items_done(w->items, w->nitems); usim_probe("quiescence awaited before stop"); }
  int before = usim_live_threads();
  ctx.destroy();  // stop + join, racing the worker's wait
  KIT_CHECK(usim_live_threads() == before - 1 && usim_live_threads() == 1, "c06.thread-leak", "single_thread_context destructor returned with %d sim threads alive", usim_live_threads());
  check_context_thread(w, "single_thread_context");
  final_checks(w, true, true);
  cleanup_items(w);
  del_world(w);
}

// ---------------------------------------------------------------- static_thread_pool
void body_pool(void*) {
  World* w = new_world();
  plan_items(w);
  w->pool_threads = draw_range(1, 3);
  faults();
  sample(w, "static_thread_pool");
  arena_box<unifex::static_thread_pool> pool;
  pool.construct((std::uint32_t)w->pool_threads);
  int with_pool = usim_live_threads();
  bool quiesce_first = draw_bool();
  run_producers(w, pool->get_scheduler());
  if (quiesce_first) { wait_items_done(w->items, w->nitems); usim_probe("quiescence awaited before stop"); }
  bool explicit_stop = draw_bool();
  if (explicit_stop) pool->request_stop();
  pool.destroy();
  KIT_CHECK(usim_live_threads() == 1 && with_pool == 1 + w->pool_threads, "c06.thread-leak", "static_thread_pool destructor returned with %d sim threads alive", usim_live_threads());
  {
    usim::np_scope np;
    for (int k = 0; k < w->nitems; ++k) {
      Item& it = w->items[k];
      // producers are T1..T(nprod) relative to pool threads created first: pool threads are T1..T(pool)
      if (it.completions && (it.channel == CH_VALUE || it.channel == CH_DONE))
        KIT_CHECK(it.done_tid >= 1 && it.done_tid <= w->pool_threads, "c06.wrong-thread", "item %d completed on T%d which is not a pool thread", k, it.done_tid);
    }
  }
  final_checks(w, false, false);
  cleanup_items(w);
  del_world(w);
}

// ---------------------------------------------------------------- timed_single_thread_context::schedule()
void body_timed(void*) {
  World* w = new_world();
  plan_items(w);
  faults();
  if (draw(3) == 0) usim_fault_rate(USIM_F_CLOCK_JITTER, 200);
  // some items are far-future timers that are always cancelled: they sit in the queue behind/between the plain items
  for (int k = 0; k < w->nitems; ++k)
    if (draw(4) == 0) { w->far_timer[k] = true; if (w->items[k].stop_mode < 2) w->items[k].stop_mode = 2 + draw(2); }
  sample(w, "timed_single_thread_context.schedule");
  arena_box<unifex::timed_single_thread_context> ctx;
  ctx.construct();
  w->ctx_thread = ctx->get_thread_id();
  run_producers(w, ctx->get_scheduler());
  // the timed context's destructor does not drain: wait for quiescence first (its documented use)
  wait_items_done(w->items, w->nitems);
  ctx.destroy();
  KIT_CHECK(usim_live_threads() == 1, "c06.thread-leak", "timed_single_thread_context destructor returned with %d sim threads alive", usim_live_threads());
  check_context_thread(w, "timed_single_thread_context");
  final_checks(w, false, false);
  cleanup_items(w);
  del_world(w);
}

// ---------------------------------------------------------------- new_thread_context
void body_newthread(void*) {
  World* w = new_world();
  plan_items(w);
  if (w->nitems > 12) w->nitems = 12;
  faults();
  sample(w, "new_thread_context");
  arena_box<unifex::new_thread_context> ctx;
  ctx.construct();
  run_producers(w, ctx->get_scheduler());
  ctx.destroy();  // waits for every thread it created and joins the last one
  KIT_CHECK(usim_live_threads() == 1, "c06.thread-leak", "new_thread_context destructor returned with %d sim threads alive", usim_live_threads());
  {
    usim::np_scope np;
    for (int a = 0; a < w->nitems; ++a) {
      Item& x = w->items[a];
      if (!x.completions) continue;
      for (int p = 0; p < w->nprod; ++p)
        KIT_CHECK(x.done_tid != w->prod_tid[p] && x.done_tid != 0, "c06.wrong-thread", "new_thread item %d completed on T%d, a producer thread", a, x.done_tid);
      for (int b = a + 1; b < w->nitems; ++b)
        if (w->items[b].completions)
          KIT_CHECK(x.done_tid != w->items[b].done_tid, "c06.wrong-thread", "new_thread items %d and %d completed on the same thread", a, b);
    }
  }
  final_checks(w, false, false);
  cleanup_items(w);
  del_world(w);
}

// ---------------------------------------------------------------- trampoline / inline
struct Chain {
  World* w;
  int depth_now = 0, depth_max = 0;
  int next = 0;
  int fanout[kMaxItems];
  std::size_t max_depth = 1;
  bool use_inline = false;
  int main_tid = 0;
};

void chain_start_next(Chain* c);

void chain_hook(Item* it, void* arg) {
  Chain* c = (Chain*)arg;
  {
    usim::np_scope np;
    c->depth_now++;
    if (c->depth_now > c->depth_max) c->depth_max = c->depth_now;
    KIT_CHECK(it->done_tid == c->main_tid, "c06.wrong-thread", "inline/trampoline item %d completed on T%d, not on the calling thread", it->id, it->done_tid);
    if (!c->use_inline)
      KIT_CHECK((std::size_t)c->depth_now <= c->max_depth, "c06.trampoline-depth", "trampoline nesting depth %d exceeds configured depth %zu", c->depth_now, c->max_depth);
  }
  int n = c->fanout[it->id];
  for (int i = 0; i < n; ++i) chain_start_next(c);
  {
    usim::np_scope np;
    c->depth_now--;
  }
}

void chain_start_next(Chain* c) {
  World* w = c->w;
  int k;
  {
    usim::np_scope np;
    if (c->next >= w->nitems) return;
    k = c->next++;
  }
  Item& it = w->items[k];
  it.on_complete = &chain_hook;
  it.hook_arg = c;
  if (it.stop_mode == 1) item_request_stop(&it);
  if (c->use_inline) item_start(&it, unifex::schedule(unifex::inline_scheduler{}));
  else item_start(&it, unifex::schedule(unifex::trampoline_scheduler{c->max_depth}));
}

void body_trampoline(void*) {
  World* w = new_world();
  Chain* c;
  { usim::np_scope np; c = new Chain(); }
  c->w = w;
  c->use_inline = draw(5) == 0;
  c->max_depth = (std::size_t)draw_range(1, 4);
  w->nitems = draw_range(1, c->use_inline ? 12 : 30);
  for (int k = 0; k < w->nitems; ++k) {
    Item& it = w->items[k];
    it.id = k;
    it.stop = &w->stops[k];
    it.stop_mode = draw(6) == 0 ? 1 : 0;
    it.free_in_completion = draw(4) != 0;
    c->fanout[k] = draw(3);  // 0,1,2 children scheduled from inside set_value
  }
  c->fanout[0] = c->fanout[0] ? c->fanout[0] : 1;
  c->main_tid = usim_here();
  usim_sample("%s depth=%zu items=%d", c->use_inline ? "inline_scheduler" : "trampoline_scheduler", c->max_depth, w->nitems);
  // several outermost starts: each must drain everything it deferred before returning
  while (true) {
    int started_before;
    { usim::np_scope np; started_before = c->next; }
    if (started_before >= w->nitems) break;
    chain_start_next(c);
    usim::np_scope np;
    for (int k = 0; k < c->next; ++k)
      KIT_CHECK(w->items[k].completions == 1, "c06.trampoline-undrained", "item %d still pending after the outermost start() returned", k);
    KIT_CHECK(c->depth_now == 0, "c06.trampoline-undrained", "harness: depth counter %d after outermost start", c->depth_now);
  }
  {
    usim::np_scope np;
    if (c->depth_max > 1) { usim_probe("nested completion"); usim_note_nontrivial(); }
    if (!c->use_inline && w->nitems > (int)c->max_depth + 1) usim_probe("trampoline had to defer");
    for (int k = 0; k < w->nitems; ++k) {
      Item& it = w->items[k];
      KIT_CHECK(it.completions == 1, "c06.lost", "item %d never completed", k);
      KIT_CHECK((it.channel == CH_DONE) == (it.stop_mode == 1), "c06.done-without-stop", "item %d: channel %s with stop_mode %d", k, ch_name(it.channel), it.stop_mode);
    }
  }
  cleanup_items(w);
  { usim::np_scope np; delete c; }
  del_world(w);
}

}  // namespace

int main(int argc, char** argv) {
  static const usim_workload table[] = {
      {"sched_manual", body_manual}, {"sched_single", body_single}, {"sched_pool", body_pool},
      {"sched_timed", body_timed},   {"sched_newthread", body_newthread}, {"sched_trampoline", body_trampoline}};
  return usim_main(argc, argv, table, 6);
}
