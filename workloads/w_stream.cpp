// w_stream — C13: streams deliver the adapted sequence in order and clean up exactly once.
// Real code: transform_stream, filter_stream, take_until, stop_immediately, type_erase,
// via_stream, on_stream, reduce_stream over scripted source streams whose next()/cleanup()
// senders are harness gates. See DESIGN.md §8 C13.
#include <kit/base.hpp>
#include <kit/gate.hpp>
#include <kit/recv.hpp>

#include <unifex/filter_stream.hpp>
#include <unifex/inline_scheduler.hpp>
#include <unifex/on_stream.hpp>
#include <unifex/reduce_stream.hpp>
#include <unifex/single_thread_context.hpp>
#include <unifex/stop_immediately.hpp>
#include <unifex/take_until.hpp>
#include <unifex/transform_stream.hpp>
#include <unifex/type_erased_stream.hpp>

using namespace kit;

namespace {

constexpr int kMaxElems = 8;

struct Src {
  // plan
  int len = 0;          // number of elements before the terminal signal
  int error_at = -1;    // index at which next() fails instead (-1: never)
  int mode[kMaxElems + 2];   // per next(): 0 inline, 1 deferred
  int on_stop[kMaxElems + 2];
  int cleanup_mode = 0;
  // history
  Gate next_gate[kMaxElems + 2];
  int next_calls = 0;
  Gate cleanup_gate;
  int cleanup_calls = 0;
};

struct SWorld {
  Src src[2];  // 0 = source, 1 = take_until trigger
  int shape = 0;
  int ctx = 0;
  long received[kMaxElems * 2 + 4];
  int nreceived = 0;
  uint64_t last_elem_seq = 0;
  OpRec rec;
  unifex::inplace_stop_source stop;
  int stop_mode = 0;  // 0 none, 1 before start, 2 stopper thread, 3 from inside element k
  int stop_yields = 0, stop_elem = 0;
  int throw_elem = -1;     // the reducer throws when it is handed this element (param rthrow=1)
  bool reducer_threw = false;
  int trigger_open_after = 0;
  volatile int all_done = 0;
  Gate* flat[2 * (kMaxElems + 3)];
  int nflat = 0;
};

struct script_stream {
  SWorld* w;
  int sid;
  gate_sender next() {
    Src& s = w->src[sid];
    usim::np_scope np;
    int i = s.next_calls++;
    KIT_CHECK(i < kMaxElems + 2, "c13.sequence", "stream %d: next() called %d times (source has %d elements): consumer keeps pulling after the end", sid, i + 1, s.len);
    Gate* g = &s.next_gate[i];
    g->id = sid * 100 + i;
    if (s.error_at == i) { g->outcome = CH_ERROR; g->payload = 9000 + i; }
    else if (i < s.len) { g->outcome = CH_VALUE; g->payload = sid ? 1 : 10 + i; }
    else { g->outcome = CH_DONE; }
    g->mode = s.mode[i];
    g->on_stop = s.on_stop[i];
    if (sid == 1) { g->mode = 1; g->on_stop = 1; }  // the trigger fires when opened (or is cancelled)
    w->flat[w->nflat++] = g;
    return gate_sender{g};
  }
  gate_done_sender cleanup() {
    Src& s = w->src[sid];
    usim::np_scope np;
    s.cleanup_calls++;
    KIT_CHECK(s.cleanup_calls == 1, "c13.cleanup-count", "stream %d: cleanup() requested %d times", sid, s.cleanup_calls);
    Gate* g = &s.cleanup_gate;
    g->id = sid * 100 + 99;
    g->outcome = CH_DONE;
    g->mode = s.cleanup_mode;
    g->on_stop = 0;
    w->flat[w->nflat++] = g;
    return gate_done_sender{g};
  }
};

long fmap(long x) { return x * 2 + 1; }
bool fkeep(long x) { return (x % 2) == 0; }

void note_elem(SWorld* w, long v) {
  bool fire = false;
  {
    usim::np_scope np;
    KIT_CHECK(w->nreceived < kMaxElems * 2 + 4, "c13.sequence", "more elements delivered than any source could produce");
    w->received[w->nreceived++] = v;
    w->last_elem_seq = seq();
    usim_trace(0xE1E0 + v);
    if (w->stop_mode == 3 && w->nreceived - 1 == w->stop_elem && !w->rec.stop_begin) fire = true;
  }
  if (fire) w->rec.request_stop();
}

template <class Stream, class Sched>
void consume(SWorld* w, Stream&& stream, Sched sched) {
  auto snd = unifex::reduce_stream((Stream &&) stream, 0L, [w](long acc, long v) {
    bool th;
    { usim::np_scope np; th = w->throw_elem >= 0 && w->nreceived == w->throw_elem; if (th) w->reducer_threw = true; }
    if (th) { usim_probe("the reducer threw"); throw gate_error{-4242}; }
    note_elem(w, v);
    return acc + v;
  });
  started_op<Sched, decltype(snd)> op;
  if (w->stop_mode == 1) w->rec.request_stop();
  std::thread stopper([w] {
    if (w->stop_mode != 2) return;
    struct P { OpRec* r; static int pred(void* p) { return ((P*)p)->r->start_begin != 0; } } p{&w->rec};
    usim_wait(&P::pred, &p);
    yields(w->stop_yields);
    w->rec.request_stop();
  });
  // opens deferred gates: source elements promptly, the trigger only after `trigger_open_after` source elements were requested
  std::thread opener([w] {
    for (;;) {
      struct P { SWorld* w; Gate* pick;
        static int pred(void* p) {
          auto* q = (P*)p;
          q->pick = nullptr;
          for (int i = 0; i < q->w->nflat; ++i) {
            Gate* g = q->w->flat[i];
            if (!(g->mode == 1 && g->armed && !g->claimed)) continue;
            bool trigger = g->id >= 100 && g->id < 199;
            if (trigger && q->w->src[0].next_calls <= q->w->trigger_open_after && !q->w->all_done) continue;
            q->pick = g;
            return 1;
          }
          return q->w->all_done ? 1 : 0;
        } } p{w, nullptr};
      usim_wait(&P::pred, &p);
      if (!p.pick) return;
      yields(draw_small(1));
      gate_open(p.pick);
    }
  });
  op.start(&w->rec, sched, std::move(snd));
  w->rec.wait();
  stopper.join();
  w->all_done = 1;
  opener.join();
  op.destroy();
}

template <class Sched>
void run_shape(SWorld* w, Sched sched) {
  script_stream s0{w, 0}, s1{w, 1};
  auto tf = [](long v) noexcept { return fmap(v); };
  auto ff = [](long v) noexcept { return fkeep(v); };
  switch (w->shape) {
    case 0: consume(w, s0, sched); break;
    case 1: consume(w, unifex::transform_stream(s0, tf), sched); break;
    case 2: consume(w, unifex::filter_stream(s0, ff), sched); break;
    case 3: consume(w, unifex::take_until(s0, s1), sched); break;
    case 4: consume(w, unifex::stop_immediately<long>(s0), sched); break;
    case 5: consume(w, unifex::type_erase<long>(s0), sched); break;
    case 6: consume(w, unifex::filter_stream(unifex::transform_stream(s0, tf), ff), sched); break;  // (via_stream: finally() cannot adapt a value-less cleanup sender)
    case 7: consume(w, unifex::on_stream(sched, s0), sched); break;
    case 8: consume(w, unifex::transform_stream(unifex::filter_stream(s0, ff), tf), sched); break;
    case 9: consume(w, unifex::stop_immediately<long>(unifex::transform_stream(s0, tf)), sched); break;
    case 10: consume(w, unifex::take_until(unifex::filter_stream(s0, ff), s1), sched); break;
    default: consume(w, unifex::type_erase<long>(unifex::take_until(s0, s1)), sched); break;
  }
}

const char* kShape[] = {"src", "transform", "filter", "take_until", "stop_immediately", "type_erase", "filter(transform)", "on_stream",
                        "transform(filter)", "stop_immediately(transform)", "take_until(filter)", "type_erase(take_until)"};

void body_stream(void*) {
  SWorld* w;
  { usim::np_scope np; w = new SWorld(); }
  w->shape = draw(12);
  w->ctx = draw(2);
  bool uses_trigger = w->shape == 3 || w->shape == 10 || w->shape == 11;
  for (int sid = 0; sid < 2; ++sid) {
    Src& s = w->src[sid];
    s.len = sid ? 1 : draw_range(0, 6);
    s.error_at = (!sid && draw(6) == 0) ? draw(s.len + 1) : -1;
    for (int i = 0; i < kMaxElems + 2; ++i) { s.mode[i] = draw(3) == 0 ? 0 : 1; s.on_stop[i] = draw(4) == 0 ? 0 : 1; }
    s.cleanup_mode = draw(2);
  }
  int sm = draw(8);
  w->stop_mode = sm < 4 ? 0 : sm < 5 ? 1 : sm < 7 ? 2 : 3;
  // (configuration comparison, C20: where a stopper thread's request lands is a matter of scheduling points, whose number differs between
  //  debug and release builds; only stops placed at program points - before start, inside element k - are comparable across builds)
  if (usim_param_int("cmp", 0) && w->stop_mode == 2) w->stop_mode = 3;
  w->stop_yields = draw_small(40);
  w->stop_elem = draw(4);
  if (usim_param_int("rthrow", 0) && draw(3) == 0) w->throw_elem = draw(4);
  w->trigger_open_after = uses_trigger ? draw(8) : 0;
  w->rec.what = "reduce_stream";
  w->rec.oracle_double = "c01.double-signal";
  w->rec.stop = &w->stop;
  if (draw(3) == 0) usim_fault_rate(USIM_F_CAS_WEAK, 100);
  usim_sample("stream: %s len=%d error_at=%d stop_mode=%d trigger_after=%d ctx=%d", kShape[w->shape], w->src[0].len, w->src[0].error_at, w->stop_mode, w->trigger_open_after, w->ctx);
  if (w->ctx == 0) run_shape(w, unifex::inline_scheduler{});
  else { arena_box<unifex::single_thread_context> ctx; ctx.construct(); run_shape(w, ctx->get_scheduler()); ctx.destroy(); }
  // ---- history
  {
    usim::np_scope np;
    Src& s = w->src[0];
    OpRec& r = w->rec;
    KIT_CHECK(r.completions == 1, "c01.lost-completion", "reduce_stream never completed");
    // the mapped source sequence
    long M[kMaxElems];
    int nm = 0;
    int upto = s.error_at >= 0 && s.error_at < s.len ? s.error_at : s.len;
    for (int i = 0; i < upto; ++i) {
      long x = 10 + i;
      bool keep = true;
      if (w->shape == 2 || w->shape == 8 || w->shape == 10) keep = fkeep(x);
      if (!keep) continue;
      if (w->shape == 1 || w->shape == 8 || w->shape == 9 || w->shape == 6) x = fmap(x);
      if (w->shape == 6 && !fkeep(x)) continue;
      M[nm++] = x;
    }
    bool may_end_early = r.stop_begin != 0 || uses_trigger;
    KIT_CHECK(w->nreceived <= nm, "c13.sequence", "%d elements delivered but the adapted source only has %d", w->nreceived, nm);
    for (int i = 0; i < w->nreceived; ++i)
      KIT_CHECK(w->received[i] == M[i], "c13.sequence", "element %d is %ld, the adaptor's definition prescribes %ld (duplicate, invented or reordered element)", i, w->received[i], M[i]);
    if (w->reducer_threw) may_end_early = true;
    if (!may_end_early) KIT_CHECK(w->nreceived == nm, "c13.sequence", "only %d of %d elements delivered although nothing stopped the stream", w->nreceived, nm);
    // the result is the fold over precisely the delivered elements; an error only if the source failed
    long sum = 0;
    for (int i = 0; i < w->nreceived; ++i) sum += w->received[i];
    if (w->reducer_threw) KIT_CHECK(r.channel == CH_ERROR, "c13.fold", "the reducer threw but reduce_stream completed with %s", ch_name(r.channel));
    if (r.channel == CH_VALUE) {
      KIT_CHECK(r.value == sum, "c13.fold", "reduce_stream result %ld is not the fold (%ld) of the %d delivered elements", r.value, sum, w->nreceived);
      if (!may_end_early) KIT_CHECK(s.error_at < 0 || s.error_at > s.len, "c13.sequence", "source failed at %d but the reduction completed with value", s.error_at);
    } else if (r.channel == CH_ERROR) {
      KIT_CHECK(s.error_at >= 0 || w->reducer_threw, "c13.sequence", "reduction completed with an error although neither the source nor the reducer failed");
    } else {
      KIT_CHECK(false, "c13.sequence", "reduce_stream completed with done (it declares sends_done=false)");
    }
    KIT_CHECK(w->last_elem_seq < r.done_seq, "c13.sequence", "an element was delivered after the consumer's completion");
    // cleanup: exactly once for every underlying stream whose next() was ever started, after its outstanding next() completed,
    // and before the consumer's result
    for (int sid = 0; sid < 2; ++sid) {
      Src& q = w->src[sid];
      bool any_started = false;
      uint64_t last_next_begin = 0;
      for (int i = 0; i < q.next_calls; ++i) {
        Gate& g = q.next_gate[i];
        if (g.started) {
          any_started = true;
          KIT_CHECK(g.claimed, "c13.cleanup-early", "stream %d: next() #%d was started but never completed", sid, i);
          if (g.complete_begin > last_next_begin) last_next_begin = g.complete_begin;
          if (i > 0 && q.next_gate[i - 1].started)
            KIT_CHECK(q.next_gate[i - 1].complete_begin < g.start_seq, "c13.sequence", "stream %d: next() #%d started while next() #%d was still outstanding", sid, i, i - 1);
        }
      }
      Gate& c = q.cleanup_gate;
      if (any_started) {
        KIT_CHECK(c.started && c.claimed, "c13.cleanup-count", "stream %d: next() was started but cleanup() never ran", sid);
        KIT_CHECK(c.start_seq > last_next_begin, "c13.cleanup-early", "stream %d: cleanup() started while a next() was still outstanding", sid);
        KIT_CHECK(c.complete_begin < r.done_seq, "c13.result-before-cleanup", "stream %d: the consumer's result was delivered before cleanup() finished", sid);
        usim_probe(sid ? "trigger stream cleaned up" : "source stream cleaned up");
      }
      if (c.started) KIT_CHECK(c.connects == 1, "c13.cleanup-count", "stream %d: %d cleanup operations", sid, c.connects);
    }
    // C04: a stop request on the consumer's token reaches the source's running next(): one that completes after the
    // request_stop() call has returned saw stop requested on the token it was given (every adaptor here forwards stop)
    if (r.stop_end)
      for (int i = 0; i < s.next_calls; ++i) {
        Gate& g = s.next_gate[i];
        if (g.started && g.claimed && g.stop_possible && g.complete_begin > r.stop_end) {
          KIT_CHECK(g.stop_at_completion, "c04.stop-reaches-child", "%s: the source's next() #%d completed (seq %llu, started %llu) after request_stop() on the consumer had returned (seq %llu) without a stop request on its token",
                    kShape[w->shape], i, (unsigned long long)g.complete_begin, (unsigned long long)g.start_seq, (unsigned long long)r.stop_end);
          usim_probe("stream stop reached a running next()");
        }
      }
    if (w->nreceived < nm && r.stop_begin) usim_probe("stop ended the sequence early");
    if (w->nreceived < nm && uses_trigger && !r.stop_begin) usim_probe("trigger ended the sequence early");
    if (w->nreceived == nm) usim_probe("full sequence delivered");
    if (w->shape == 4 || w->shape == 9) {
      // stop_immediately: an abandoned next() may complete after the consumer was told done
      for (int i = 0; i < s.next_calls; ++i) if (s.next_gate[i].started && s.next_gate[i].delivered == CH_VALUE && i >= w->nreceived + (w->shape == 9 ? 0 : 0) && r.stop_begin) { usim_probe("stop_immediately abandoned a next()"); break; }
    }
  }
  { usim::np_scope np; delete w; }
}

}  // namespace

int main(int argc, char** argv) {
  static const usim_workload table[] = {{"stream", body_stream}};
  return usim_main(argc, argv, table, 1);
}
