// w_timer — C07: timers never fire early, fire in due-time order, cancel promptly, exactly once.
// Real code: timed_single_thread_context (schedule_at / schedule_after / cancel_callback),
// thread_unsafe_event_loop (driven by its own sync_wait), inplace_stop_source.
// The I/O contexts' timers are in w_io.cpp. See DESIGN.md §8 C07.
#include <kit/base.hpp>
#include <kit/items.hpp>

#include <unifex/scheduler_concepts.hpp>
#include <unifex/thread_unsafe_event_loop.hpp>
#include <unifex/timed_single_thread_context.hpp>

#include <chrono>

using namespace kit;

namespace {

constexpr int kMaxT = 12;
using sclock = std::chrono::steady_clock;

struct TItem {
  // plan
  bool at = true;          // schedule_at vs schedule_after
  int64_t offset_ns = 0;   // relative to plan base (at) or duration (after)
  int stop_mode = 0;       // 0 none, 1 before start, 2 after start by owner, 3 by a stopper thread, 4 from inside completion of item `by`
  int by = -1;
  int parent = -1;         // started from inside the completion of item `parent` (-1: by its producer)
  int stop_yields = 0;
  // derived / history
  uint64_t due_lo = 0, due_hi = 0;   // bounds of the due time (ns, simulated clock)
  uint64_t start_end_now = 0;        // simulated time when start() had returned
  uint64_t stop_end_now = 0;         // simulated time when the stop request had returned
};

struct World {
  Item items[kMaxT];
  TItem t[kMaxT];
  unifex::inplace_stop_source stops[kMaxT];
  int n = 0;
  int nprod = 1;
  uint64_t base = 0;
  bool timer_first = false;
  int completed = 0;
  // thread_unsafe_event_loop driver
  void (*finish)(void*) = nullptr;
  void* finish_arg = nullptr;
};

const int64_t kOffsets[] = {-5000000, 0, 0, 20000, 50000, 50000, 100000, 200000, 200000, 1000000, 5000000, 1000000000ll, 3600000000000ll};

void plan(World* w, bool single_thread) {
  w->n = draw_range(1, 10);
  w->nprod = single_thread ? 1 : draw_range(1, 3);
  for (int k = 0; k < w->n; ++k) {
    Item& it = w->items[k];
    TItem& t = w->t[k];
    it.id = k;
    it.oracle_prefix = "c07";
    it.stop = &w->stops[k];
    it.producer = draw(w->nprod);
    it.pre_yields = draw_small(4);
    it.free_in_completion = draw(5) != 0;
    t.at = draw(3) != 0;
    t.offset_ns = kOffsets[draw((int)(sizeof kOffsets / sizeof kOffsets[0]))];
    if (!t.at && t.offset_ns < 0) t.offset_ns = 0;
    int sm = draw(10);
    t.stop_mode = sm < 4 ? 0 : sm < 6 ? 1 : sm < 8 ? 2 : sm < 9 ? 3 : 4;
    t.stop_yields = draw_small(10);
    if (t.stop_mode == 4) {
      t.by = k ? draw(k) : -1;
      if (t.by < 0) t.stop_mode = 2;
    }
    if (single_thread && t.stop_mode == 3) t.stop_mode = 2;
    if (k && draw(4) == 0) t.parent = draw(k);
    it.stop_mode = t.stop_mode;
    // far-future timers must be cancelled somehow or the run simply lasts an hour of simulated time (fine)
  }
}

void sample(World* w, const char* ctx) {
  usim::np_scope np;
  char buf[700];
  int o = snprintf(buf, sizeof buf, "%s: prod=%d timers=[", ctx, w->nprod);
  for (int k = 0; k < w->n && o < 620; ++k)
    o += snprintf(buf + o, sizeof buf - o, "%s%d:%s%+lldus p%d s%d%s", k ? " " : "", k, w->t[k].at ? "at" : "after",
                  (long long)(w->t[k].offset_ns / 1000), w->items[k].producer, w->t[k].stop_mode,
                  w->t[k].parent >= 0 ? "n" : "");
  usim_sample("%s]", buf);
}

template <class Sched>
void start_timer(World* w, int k, Sched sched) {
  Item& it = w->items[k];
  TItem& t = w->t[k];
  if (t.stop_mode == 1) {
    item_request_stop(&it);
    usim::np_scope np;
    t.stop_end_now = usim_now();
  }
  {
    usim::np_scope np;
    if (t.at) t.due_lo = t.due_hi = (uint64_t)((int64_t)w->base + t.offset_ns);
    else t.due_lo = usim_now() + (uint64_t)t.offset_ns;
  }
  if (t.at) {
    sclock::time_point tp{std::chrono::nanoseconds((int64_t)w->base + t.offset_ns)};
    item_start(&it, unifex::schedule_at(sched, tp));
  } else {
    item_start(&it, unifex::schedule_after(sched, std::chrono::nanoseconds(t.offset_ns)));
  }
  {
    usim::np_scope np;
    t.start_end_now = usim_now();
    if (!t.at) t.due_hi = usim_now() + (uint64_t)t.offset_ns;
  }
}

void stop_timer(World* w, int k) {
  item_request_stop(&w->items[k]);
  usim::np_scope np;
  w->t[k].stop_end_now = usim_now();
}

// ------------------------------------------------------------------ oracles
void on_timer_complete(World* w, Item* it) {
  usim::np_scope np;
  TItem& t = w->t[it->id];
  if (it->channel == CH_VALUE) {
    // the scheduler's clock is the simulated clock; reading it here does not advance it
    KIT_CHECK(it->done_now >= t.due_lo, "c07.early", "timer %d completed with value at t=%lluns, %lluns before its due time", it->id,
              (unsigned long long)it->done_now, (unsigned long long)(t.due_lo - it->done_now));
  }
  w->completed++;
}

void history(World* w, bool single_thread_submit) {
  usim::np_scope np;
  const uint64_t slack = 2000000;  // 2 ms of simulated time: far more than the clock reads of a cancel path
  for (int a = 0; a < w->n; ++a) {
    Item& x = w->items[a];
    TItem& ta = w->t[a];
    KIT_CHECK(x.start_begin != 0, "c07.lost", "harness: timer %d never started", a);
    KIT_CHECK(x.completions == 1, "c07.lost", "timer %d never completed", a);
    KIT_CHECK(x.channel != CH_ERROR, "c07.lost", "timer %d completed with an error", a);
    if (x.channel == CH_DONE) {
      KIT_CHECK(x.stop_begin && x.stop_begin < x.done_seq, "c07.done-without-stop", "timer %d completed with done before any stop request", a);
      usim_probe("timer cancelled (done)");
      // promptness: a stop requested well before the due time completes before the due time,
      // unless this run lets the clock jump while threads are runnable (stalled-thread fault)
      uint64_t armed = ta.stop_end_now > ta.start_end_now ? ta.stop_end_now : ta.start_end_now;  // stopped AND started
      if (!w->timer_first && ta.stop_end_now && ta.start_end_now && armed + slack < ta.due_lo) {
        KIT_CHECK(x.done_now < ta.due_lo, "c07.cancel-not-prompt",
                  "timer %d: stop was requested %lluns before its due time but it completed with done only at/after the due time", a,
                  (unsigned long long)(ta.due_lo - armed));
        usim_probe("prompt cancellation checked");
      }
    }
    if (x.channel == CH_VALUE && ta.stop_mode == 1)
      KIT_CHECK(false, "c07.value-after-stop", "timer %d whose stop was requested before start() completed with value", a);
    if (x.channel == CH_VALUE && x.stop_begin) usim_probe("cancellation lost the race against expiry");
    for (int b = 0; b < w->n; ++b) {
      if (a == b) continue;
      Item& y = w->items[b];
      TItem& tb = w->t[b];
      if (x.channel != CH_VALUE || y.channel != CH_VALUE) continue;
      if (x.stop_begin || y.stop_begin) continue;  // a cancel attempt re-queues: order claims are for untouched timers
      // a was certainly queued before b could have been dequeued: a's start() had returned before b's due time
      bool a_queued_first = ta.start_end_now < tb.due_lo;
      if (ta.due_hi < tb.due_lo && a_queued_first) {
        KIT_CHECK(x.done_seq < y.done_seq, "c07.order", "timer %d (due earlier) completed after timer %d (due later)", a, b);
        usim_probe("due-order pair checked");
      }
      bool a_submitted_first = x.start_end < y.start_begin;
      if (ta.at && tb.at && ta.due_lo == tb.due_lo && a_submitted_first && a_queued_first) {
        KIT_CHECK(x.done_seq < y.done_seq, "c07.tie-order", "timers %d and %d have equal due times; %d was submitted first but completed second", a, b, a);
        usim_probe("tie-order pair checked");
      }
    }
  }
  (void)single_thread_submit;
}

World* new_world() {
  usim::np_scope np;
  return new World();
}

// ------------------------------------------------------------------ timed_single_thread_context
struct TimedCtx {
  World* w;
  arena_box<unifex::timed_single_thread_context>* ctx;
};

void timed_hook(Item* it, void* arg) {
  auto* c = (TimedCtx*)arg;
  World* w = c->w;
  on_timer_complete(w, it);
  // nested starts and stop requests issued from the timer thread itself
  for (int k = 0; k < w->n; ++k) {
    if (w->t[k].parent == it->id) start_timer(w, k, (*c->ctx)->get_scheduler());
    bool fire;
    { usim::np_scope np; fire = w->t[k].stop_mode == 4 && w->t[k].by == it->id && w->items[k].stop_begin == 0; }
    if (fire) stop_timer(w, k);
  }
}

void body_timed(void*) {
  World* w = new_world();
  plan(w, false);
  w->timer_first = draw(4) == 0;
  if (w->timer_first) usim_fault_rate(USIM_F_TIMER_FIRST, 20);
  if (draw(3) == 0) usim_fault_rate(USIM_F_COND_SPURIOUS, 150);
  if (draw(3) == 0) usim_fault_rate(USIM_F_CLOCK_JITTER, 200);
  if (draw(4) == 0) usim_fault_rate(USIM_F_CAS_WEAK, 100);
  sample(w, "timed_single_thread_context");
  arena_box<unifex::timed_single_thread_context> ctx;
  ctx.construct();
  TimedCtx tc{w, &ctx};
  for (int k = 0; k < w->n; ++k) { w->items[k].on_complete = &timed_hook; w->items[k].hook_arg = &tc; }
  w->base = usim_now() + 100000;  // "now" + 100 us: offsets below zero are in the past when submitted
  std::thread thr[8];
  int nt = 0;
  for (int p = 0; p < w->nprod; ++p)
    thr[nt++] = std::thread([w, p, &ctx] {
      for (int k = 0; k < w->n; ++k) {
        Item& it = w->items[k];
        if (it.producer != p || w->t[k].parent >= 0) continue;
        yields(it.pre_yields);
        start_timer(w, k, ctx->get_scheduler());
        if (w->t[k].stop_mode == 2) { yields(w->t[k].stop_yields); stop_timer(w, k); }
      }
    });
  // stopper thread for mode 3 (remote stop racing the timer thread's dequeue)
  thr[nt++] = std::thread([w] {
    for (int k = 0; k < w->n; ++k) {
      if (w->t[k].stop_mode != 3) continue;
      struct P { World* w; int k; static int pred(void* p) { auto* q = (P*)p; return q->w->items[q->k].start_begin != 0; } } p{w, k};
      usim_wait(&P::pred, &p);
      yields(w->t[k].stop_yields);
      stop_timer(w, k);
    }
  });
  for (int i = 0; i < nt; ++i) thr[i].join();
  // nested timers whose parent was cancelled before... every parent completes, so every child gets started
  // mode-4 stops whose `by` item completed before the target was started are issued now
  {
    struct AllStarted { World* w; static int pred(void* p) { auto* w = ((AllStarted*)p)->w; for (int k = 0; k < w->n; ++k) if (!w->items[k].start_end) return 0; return 1; } } as{w};
    usim_wait(&AllStarted::pred, &as);
  }
  for (int k = 0; k < w->n; ++k) {
    bool need;
    { usim::np_scope np; need = w->t[k].stop_mode == 4 && w->items[k].stop_begin == 0 && w->items[w->t[k].by].completions; }
    if (need) stop_timer(w, k);
  }
  wait_items_done(w->items, w->n);
  ctx.destroy();  // asserts that its queue is empty
  history(w, false);
  for (int k = 0; k < w->n; ++k) item_cleanup(&w->items[k]);
  { usim::np_scope np; delete w; }
}

// ------------------------------------------------------------------ thread_unsafe_event_loop
struct UnsafeCtx {
  World* w;
  unifex::thread_unsafe_event_loop* loop;
};

void unsafe_hook(Item* it, void* arg) {
  auto* c = (UnsafeCtx*)arg;
  World* w = c->w;
  on_timer_complete(w, it);
  for (int k = 0; k < w->n; ++k) {
    if (w->t[k].parent == it->id) {
      start_timer(w, k, c->loop->get_scheduler());
      if (w->t[k].stop_mode == 2) stop_timer(w, k);
    }
    bool fire;
    { usim::np_scope np; fire = w->t[k].stop_mode == 4 && w->t[k].by == it->id && w->items[k].stop_begin == 0 && w->items[k].start_end != 0 && !w->items[k].completions; }
    if (fire) stop_timer(w, k);
  }
  bool all;
  { usim::np_scope np; all = w->completed == w->n; }
  if (all && w->finish) w->finish(w->finish_arg);
}

// a sender whose start() submits the initial timers; it completes when every timer has completed
struct BatchSender {
  template <template <class...> class Variant, template <class...> class Tuple>
  using value_types = Variant<Tuple<>>;
  template <template <class...> class Variant>
  using error_types = Variant<std::exception_ptr>;
  static constexpr bool sends_done = false;
  UnsafeCtx* c;
  template <class R>
  struct Op {
    UnsafeCtx* c;
    R r;
    static void finish(void* p) {
      auto* self = (Op*)p;
      unifex::set_value(std::move(self->r));
    }
    void start() noexcept {
      World* w = c->w;
      w->finish = &finish;
      w->finish_arg = this;
      for (int k = 0; k < w->n; ++k) {
        if (w->t[k].parent >= 0) continue;
        start_timer(w, k, c->loop->get_scheduler());
        if (w->t[k].stop_mode == 2) stop_timer(w, k);
      }
    }
  };
  template <class R>
  Op<std::decay_t<R>> connect(R&& r) && { return Op<std::decay_t<R>>{c, (R &&) r}; }
};

void body_unsafe(void*) {
  World* w = new_world();
  plan(w, true);
  // mode 4 needs the target to be started: only allowed when target and `by` are both initial or target is earlier
  if (draw(3) == 0) usim_fault_rate(USIM_F_CLOCK_JITTER, 200);
  sample(w, "thread_unsafe_event_loop");
  unifex::thread_unsafe_event_loop loop;
  UnsafeCtx uc{w, &loop};
  for (int k = 0; k < w->n; ++k) { w->items[k].on_complete = &unsafe_hook; w->items[k].hook_arg = &uc; }
  w->base = usim_now() + 100000;
  auto r = loop.sync_wait(BatchSender{&uc});
  KIT_CHECK(r.has_value(), "c07.lost", "thread_unsafe_event_loop::sync_wait returned without the batch completing");
  // stop requests of mode 4 whose trigger completed before the target started stay unissued: nothing to check for them
  {
    usim::np_scope np;
    for (int k = 0; k < w->n; ++k)
      if (w->t[k].stop_mode == 4 && !w->items[k].stop_begin) w->t[k].stop_mode = 0;
  }
  history(w, true);
  for (int k = 0; k < w->n; ++k) item_cleanup(&w->items[k]);
  { usim::np_scope np; delete w; }
}

}  // namespace

int main(int argc, char** argv) {
  static const usim_workload table[] = {{"timer_thread", body_timed}, {"timer_unsafe", body_unsafe}};
  return usim_main(argc, argv, table, 2);
}
