// w_mutex — C15: async_mutex gives mutual exclusion and never loses a waiter.
// Real code: v1 async_mutex (atomic_intrusive_queue), v2 async_mutex
// (atomic_intrusive_list, cancellable, completion_forwarder), the schedulers the
// v2 waiters complete on. See DESIGN.md §8 C15.
#include <kit/base.hpp>
#include <kit/items.hpp>

#include <unifex/async_mutex.hpp>
#include <unifex/get_stop_token.hpp>
#include <unifex/inline_scheduler.hpp>
#include <unifex/scheduler_concepts.hpp>
#include <unifex/single_thread_context.hpp>
#include <unifex/v2/async_mutex.hpp>

using namespace kit;

namespace {

constexpr int kMaxLockers = 5;
constexpr int kMaxRounds = 4;

struct Attempt {
  // plan
  int kind = 0;       // 0 async_lock, 1 try_lock
  int stop_mode = 0;  // v2 only: 0 none, 1 before start, 2 stopper thread after yields
  int stop_yields = 0;
  int cs_yields = 0;
  int pre_yields = 0;
  // history
  uint64_t start_begin = 0, start_end = 0, done_seq = 0, stop_begin = 0, stop_end = 0, unlock_begin = 0;
  int completions = 0;
  int channel = CH_NONE;
  int done_tid = -1;
  std::thread::id done_thread{};
  bool queued = false;   // did not complete inside start()
  volatile int flag = 0;
};

struct World {
  int nlock = 2;
  int rounds[kMaxLockers];
  Attempt at[kMaxLockers][kMaxRounds];
  unifex::inplace_stop_source stops[kMaxLockers][kMaxRounds];
  int holder = -1;          // locker index currently holding the mutex (harness view)
  int acquisitions = 0;
  uint64_t grant_seq[kMaxLockers][kMaxRounds];
  int sched_mode = 0;       // v2: 0 inline, 1 shared context, 2 context per locker
  std::thread::id ctx_thread[kMaxLockers];
};

void acquired(World* w, int l, int r, const char* how) {
  usim::np_scope np;
  KIT_CHECK(w->holder < 0, "c15.mutex", "locker %d acquired the mutex (%s, round %d) while locker %d holds it", l, how, r, w->holder);
  w->holder = l;
  w->acquisitions++;
  w->grant_seq[l][r] = seq();
  usim_trace(0xACC0 + l * 8 + r);
}
void releasing(World* w, int l) {
  usim::np_scope np;
  KIT_CHECK(w->holder == l, "c15.mutex", "harness: locker %d unlocking while holder is %d", l, w->holder);
  w->holder = -1;
  KIT_TRACE("locker %d unlocking", l);
}

struct LockReceiverBase {
  World* w;
  int l, r;
  void complete(int ch) noexcept {
    usim::np_scope np;
    Attempt& a = w->at[l][r];
    KIT_CHECK(a.completions == 0, "c15.double", "async_lock of locker %d round %d completed twice", l, r);
    KIT_CHECK(a.start_begin != 0, "c15.double", "async_lock of locker %d completed before start", l);
    a.completions++;
    a.channel = ch;
    a.done_seq = seq();
    a.done_tid = usim_here();
    a.done_thread = std::this_thread::get_id();
    a.queued = a.start_end != 0;
    KIT_TRACE("async_lock locker %d round %d completed with %s (stop_begin=%llu)", l, r, ch_name(ch), (unsigned long long)a.stop_begin);
  }
};

// ------------------------------------------------------------------ v1
struct V1Receiver : LockReceiverBase {
  void set_value() && noexcept {
    World* ww = w; int ll = l, rr = r;
    complete(CH_VALUE);
    acquired(ww, ll, rr, "async_lock");
    ww->at[ll][rr].flag = 1;
  }
  void set_error(std::exception_ptr) && noexcept { complete(CH_ERROR); w->at[l][r].flag = 1; }
  void set_done() && noexcept { complete(CH_DONE); w->at[l][r].flag = 1; }
};

void plan(World* w, bool v2) {
  w->nlock = draw_range(2, kMaxLockers);
  for (int l = 0; l < w->nlock; ++l) {
    w->rounds[l] = draw_range(1, kMaxRounds);
    for (int r = 0; r < w->rounds[l]; ++r) {
      Attempt& a = w->at[l][r];
      a.kind = draw(5) == 0 ? 1 : 0;
      a.cs_yields = draw_small(4);
      a.pre_yields = draw_small(4);
      if (v2 && a.kind == 0) {
        int sm = draw(6);
        a.stop_mode = sm < 3 ? 0 : sm < 4 ? 1 : 2;
        a.stop_yields = draw_small(8);
      }
    }
  }
}

void sample(World* w, const char* what) {
  usim::np_scope np;
  char buf[600];
  int o = snprintf(buf, sizeof buf, "%s: sched=%d lockers=[", what, w->sched_mode);
  for (int l = 0; l < w->nlock && o < 540; ++l) {
    o += snprintf(buf + o, sizeof buf - o, "%s(", l ? " " : "");
    for (int r = 0; r < w->rounds[l]; ++r)
      o += snprintf(buf + o, sizeof buf - o, "%s%c%d", r ? "," : "", w->at[l][r].kind ? 't' : 'a', w->at[l][r].stop_mode);
    o += snprintf(buf + o, sizeof buf - o, ")");
  }
  usim_sample("%s]", buf);
}

void final_checks(World* w, bool v2) {
  usim::np_scope np;
  for (int l = 0; l < w->nlock; ++l)
    for (int r = 0; r < w->rounds[l]; ++r) {
      Attempt& a = w->at[l][r];
      if (a.kind == 1) continue;
      KIT_CHECK(a.completions == 1, "c15.lost-waiter", "async_lock of locker %d round %d never completed", l, r);
      if (a.channel == CH_DONE) {
        KIT_CHECK(a.stop_begin && a.stop_begin < a.done_seq, "c15.cancel-owns", "locker %d round %d completed with done without a stop request", l, r);
        usim_probe(a.queued ? "queued waiter cancelled" : "waiter cancelled inside start");
      }
      if (a.channel == CH_VALUE && a.stop_begin) usim_probe("cancellation lost the race against the grant");
      if (a.channel == CH_VALUE && a.queued) usim_probe("waiter granted after queuing");
    }
  if (v2 && w->sched_mode == 0) {
    // FIFO among waiters that were really queued and never touched by a stop request.
    // Only with the inline scheduler does "completed after start() returned" mean "was in the
    // mutex's queue": with a hop, a waiter that took the lock on the fast path also completes
    // later, and a newcomer barging through the fast path in the unlock window is not a queued waiter.
    for (int l1 = 0; l1 < w->nlock; ++l1)
      for (int r1 = 0; r1 < w->rounds[l1]; ++r1)
        for (int l2 = 0; l2 < w->nlock; ++l2)
          for (int r2 = 0; r2 < w->rounds[l2]; ++r2) {
            Attempt &a = w->at[l1][r1], &b = w->at[l2][r2];
            if (&a == &b || a.kind || b.kind) continue;
            if (a.channel != CH_VALUE || b.channel != CH_VALUE || a.stop_begin || b.stop_begin) continue;
            if (!a.queued || !b.queued) continue;
            // a was queued before b's start began, and a had not been granted yet when b queued
            if (a.start_end < b.start_begin && w->grant_seq[l1][r1] > b.start_end) {
              KIT_CHECK(w->grant_seq[l1][r1] < w->grant_seq[l2][r2], "c15.order", "v2 mutex granted locker %d (queued later) before locker %d (queued earlier)", l2, l1);
              usim_probe("fifo pair checked");
            }
          }
  }
}

void body_v1(void*) {
  World* w;
  { usim::np_scope np; w = new World(); }
  plan(w, false);
  if (draw(3) == 0) usim_fault_rate(USIM_F_CAS_WEAK, 100);
  sample(w, "async_mutex v1");
  arena_box<unifex::v1::async_mutex> mtx;
  mtx.construct();
  std::thread thr[kMaxLockers];
  for (int l = 0; l < w->nlock; ++l)
    thr[l] = std::thread([w, l, &mtx] {
      for (int r = 0; r < w->rounds[l]; ++r) {
        Attempt& a = w->at[l][r];
        yields(a.pre_yields);
        if (a.kind == 1) {
          if (!mtx->try_lock()) { usim_probe("try_lock failed"); continue; }
          acquired(w, l, r, "try_lock");
        } else {
          using Op = unifex::connect_result_t<decltype(mtx->async_lock()), V1Receiver>;
          arena_box<Op> op;
          V1Receiver rc;
          rc.w = w; rc.l = l; rc.r = r;
          op.construct_with([&]() { return unifex::connect(mtx->async_lock(), std::move(rc)); });
          { usim::np_scope np; a.start_begin = seq(); }
          unifex::start(*op);
          { usim::np_scope np; a.start_end = seq(); }
          wait_flag(&a.flag);
          op.destroy();
        }
        yields(a.cs_yields);
        releasing(w, l);
        mtx->unlock();  // may resume the next waiter inline on this thread
      }
    });
  for (int l = 0; l < w->nlock; ++l) thr[l].join();
  final_checks(w, false);
  KIT_CHECK(mtx->try_lock(), "c15.leaked-lock", "v1 mutex still locked after every holder unlocked");
  mtx->unlock();
  mtx.destroy();
  { usim::np_scope np; delete w; }
}

// ------------------------------------------------------------------ v2
template <class Sched>
struct V2Receiver : LockReceiverBase {
  Sched sched;
  void set_value() && noexcept {
    World* ww = w; int ll = l, rr = r;
    complete(CH_VALUE);
    acquired(ww, ll, rr, "async_lock");
    ww->at[ll][rr].flag = 1;
  }
  template <class E>
  void set_error(E&&) && noexcept { World* ww = w; int ll = l, rr = r; complete(CH_ERROR); ww->at[ll][rr].flag = 1; }
  void set_done() && noexcept { World* ww = w; int ll = l, rr = r; complete(CH_DONE); ww->at[ll][rr].flag = 1; }
  friend Sched tag_invoke(unifex::tag_t<unifex::get_scheduler>, const V2Receiver& r) noexcept { return r.sched; }
  friend unifex::inplace_stop_token tag_invoke(unifex::tag_t<unifex::get_stop_token>, const V2Receiver& r) noexcept {
    return r.w->stops[r.l][r.r].get_token();
  }
};

template <class Sched, class GetSched>
void run_v2(World* w, GetSched get_sched, bool check_ctx) {
  arena_box<unifex::v2::async_mutex> mtx;
  mtx.construct();
  std::thread thr[kMaxLockers + 1];
  for (int l = 0; l < w->nlock; ++l)
    thr[l] = std::thread([w, l, &mtx, get_sched] {
      for (int r = 0; r < w->rounds[l]; ++r) {
        Attempt& a = w->at[l][r];
        yields(a.pre_yields);
        if (a.kind == 1) {
          if (!mtx->try_lock()) { usim_probe("try_lock failed"); KIT_TRACE("locker %d try_lock failed", l); continue; }
          acquired(w, l, r, "try_lock");
          KIT_TRACE("locker %d try_lock ok", l);
        } else {
          using R = V2Receiver<Sched>;
          using Op = unifex::connect_result_t<decltype(mtx->async_lock()), R>;
          arena_box<Op> op;
          if (a.stop_mode == 1) {
            { usim::np_scope np; a.stop_begin = seq(); }
            w->stops[l][r].request_stop();
            { usim::np_scope np; a.stop_end = seq(); }
          }
          op.construct_with([&]() {
            R rc{LockReceiverBase{w, l, r}, get_sched(l)};
            return unifex::connect(mtx->async_lock(), std::move(rc));
          });
          { usim::np_scope np; a.start_begin = seq(); }
          KIT_TRACE("locker %d round %d start begin (seq %llu)", l, r, (unsigned long long)a.start_begin);
          unifex::start(*op);
          { usim::np_scope np; a.start_end = seq(); }
          KIT_TRACE("locker %d round %d start end (seq %llu) completions=%d", l, r, (unsigned long long)a.start_end, a.completions);
          wait_flag(&a.flag);
          op.destroy();
          if (a.channel != CH_VALUE) continue;  // cancelled: never owned the lock
        }
        yields(a.cs_yields);
        releasing(w, l);
        mtx->unlock();
      }
    });
  // one stopper thread serves every mode-2 attempt, in plan order per locker
  thr[w->nlock] = std::thread([w] {
    for (int r = 0; r < kMaxRounds; ++r)
      for (int l = 0; l < w->nlock; ++l) {
        if (r >= w->rounds[l]) continue;
        Attempt& a = w->at[l][r];
        if (a.kind != 0 || a.stop_mode != 2) continue;
        struct P { Attempt* a; static int pred(void* p) { return ((P*)p)->a->start_begin != 0; } } p{&a};
        usim_wait(&P::pred, &p);
        yields(a.stop_yields);
        { usim::np_scope np; a.stop_begin = seq(); }
        w->stops[l][r].request_stop();
        { usim::np_scope np; a.stop_end = seq(); }
      }
  });
  for (int l = 0; l <= w->nlock; ++l) thr[l].join();
  final_checks(w, true);
  if (check_ctx) {
    usim::np_scope np;
    for (int l = 0; l < w->nlock; ++l)
      for (int r = 0; r < w->rounds[l]; ++r) {
        Attempt& a = w->at[l][r];
        // value completions hop to the waiter's scheduler
        if (a.kind == 0 && a.channel == CH_VALUE)
          KIT_CHECK(a.done_thread == w->ctx_thread[l], "c11.affine", "v2 async_lock of locker %d completed with value on T%d, not on its scheduler's thread", l, a.done_tid);
      }
  }
  // every holder has unlocked and every cancelled waiter is gone: the lock must be free
  KIT_CHECK(mtx->try_lock(), "c15.leaked-lock", "v2 mutex still locked after every holder unlocked (lock leaked to a cancelled waiter?)");
  mtx->unlock();
  mtx.destroy();
}

void body_v2(void*) {
  World* w;
  { usim::np_scope np; w = new World(); }
  plan(w, true);
  w->sched_mode = draw(3);
  if (draw(3) == 0) usim_fault_rate(USIM_F_CAS_WEAK, 100);
  if (draw(4) == 0) usim_fault_rate(USIM_F_COND_SPURIOUS, 100);
  sample(w, "async_mutex v2");
  if (w->sched_mode == 0) {
    run_v2<unifex::inline_scheduler>(w, [](int) { return unifex::inline_scheduler{}; }, false);
  } else {
    int nctx = w->sched_mode == 1 ? 1 : w->nlock;
    arena_box<unifex::single_thread_context> ctx[kMaxLockers];
    for (int i = 0; i < nctx; ++i) ctx[i].construct();
    for (int l = 0; l < w->nlock; ++l) w->ctx_thread[l] = ctx[w->sched_mode == 1 ? 0 : l]->get_thread_id();
    using S = decltype(ctx[0]->get_scheduler());
    auto* cp = ctx;
    int mode = w->sched_mode;
    run_v2<S>(w, [cp, mode](int l) { return cp[mode == 1 ? 0 : l]->get_scheduler(); }, true);
    for (int i = 0; i < nctx; ++i) ctx[i].destroy();
  }
  { usim::np_scope np; delete w; }
}

}  // namespace

int main(int argc, char** argv) {
  static const usim_workload table[] = {{"mutex_v1", body_v1}, {"mutex_v2", body_v2}};
  return usim_main(argc, argv, table, 2);
}
