// w_anysnd — C18(a) for any_sender_of<> seen from outside the interpreter: the wrapper is connected to
// a receiver whose stop token is a THIRD-PARTY token (kit::sim_stop_token) or an inplace_stop_token,
// so that the library's own stop-token adaption inside the type-erased operation (subscribe before the
// erased connect, unsubscribe on completion / destruction) runs for real. 1-3 operations in sequence
// on the same stop source; faults: the wrapped sender's connect() throws, operator new fails while
// the erased operation is allocated; stop requested before connect, after a failed connect, racing
// the completion, or never.
// Oracles (c18.transparent = "connecting the wrapper behaves like connecting the wrapped sender"):
// a failed connect leaves nothing registered on the receiver's stop source, nothing started, nothing
// leaked, and a later stop request touches no freed memory; a successful one delivers exactly the
// wrapped sender's result, forwards a stop request to it, and leaves no registration behind.
#include <kit/base.hpp>
#include <kit/gate.hpp>
#include <kit/items.hpp>
#include <kit/recv.hpp>
#include <kit/simstop.hpp>

#include <unifex/any_sender_of.hpp>
#include <unifex/inline_scheduler.hpp>

using namespace kit;

namespace wanysnd {

constexpr int kMaxOps = 3;

struct Round {
  int fault = 0;      // 0 none, 1 wrapped connect throws, 2 allocation failures during connect
  int stop_mode = 0;  // 0 none, 1 before connect, 2 racing (after yields), 3 right after a failed connect / after start returned
  int stop_yields = 0;
  bool threw = false;
  int regs_after_failed_connect = -1;
};

template <class Source>
struct World {
  Gate g[kMaxOps];
  OpRec rec[kMaxOps];
  Round rd[kMaxOps];
  int nops = 1;
  arena_box<Source> src;  // one stop source for the whole sequence
  volatile int finished = 0;
};

template <class Source>
struct TokReceiver {
  OpRec* rec;
  Source* src;
  void set_value(long v) && noexcept { rec->complete(CH_VALUE, v); }
  template <class E>
  void set_error(E&&) && noexcept { rec->complete(CH_ERROR); }
  void set_done() && noexcept { rec->complete(CH_DONE); }
  friend auto tag_invoke(unifex::tag_t<unifex::get_stop_token>, const TokReceiver& r) noexcept { return r.src->get_token(); }
};

inline int live_regs(kit::sim_stop_source& s) { return s.live_registrations(); }
inline int live_regs(unifex::inplace_stop_source&) { return 0; }  // (not observable; the shadow memory covers it)
inline void user_stop(kit::sim_stop_source& s) { s.request_stop(true); }
inline void user_stop(unifex::inplace_stop_source& s) { s.request_stop(); }

template <class Source>
void body(const char* tokname) {
  using W = World<Source>;
  W* w;
  { usim::np_scope np; w = new W(); }
  w->nops = draw_range(1, kMaxOps);
  bool any_alloc = false;
  for (int i = 0; i < kMaxOps; ++i) {
    Gate& g = w->g[i];
    g.id = i;
    g.oracle = "c18";
    int o = draw(6);
    g.outcome = o < 3 ? CH_VALUE : o < 5 ? CH_ERROR : CH_DONE;
    g.payload = 700 + i;
    g.mode = draw(3) == 0 ? 0 : 1;
    g.on_stop = draw(4) == 0 ? 0 : 1;
    Round& r = w->rd[i];
    int f = draw(5);
    r.fault = f == 0 ? 1 : f == 1 ? 2 : 0;
    if (r.fault == 1) g.throw_on_connect = true;
    if (r.fault == 2) any_alloc = true;
    int sm = draw(8);
    r.stop_mode = sm < 4 ? 0 : sm < 5 ? 1 : sm < 7 ? 2 : 3;
    r.stop_yields = draw_small(10);
    w->rec[i].what = "any_sender_of";
    w->rec[i].a = i;
    w->rec[i].oracle_double = "c01.double-signal";
  }
  if (any_alloc) usim_fault_rate(USIM_F_ALLOC, 500);
  if (draw(4) == 0) usim_fault_rate(USIM_F_CAS_WEAK, 100);
  usim_sample("any_sender_of over %s token: ops=%d faults=%d%d%d stop=%d%d%d", tokname, w->nops, w->rd[0].fault, w->rd[1].fault, w->rd[2].fault, w->rd[0].stop_mode, w->rd[1].stop_mode,
              w->rd[2].stop_mode);
  w->src.construct();
  gate_opener opener{w->g, kMaxOps, &w->finished, draw_small(6)};
  std::thread opener_thr([&opener] { opener.run(); });
  bool stopped = false;  // a stop source fires once: later rounds run with stop already requested
  for (int i = 0; i < w->nops; ++i) {
    Round& r = w->rd[i];
    Gate& g = w->g[i];
    OpRec& rec = w->rec[i];
    using R = TokReceiver<Source>;
    using Snd = unifex::any_sender_of<long>;
    using Op = unifex::connect_result_t<Snd, R>;
    arena_box<Op> op;
    if (r.stop_mode == 1 && !stopped) { { usim::np_scope np; rec.stop_begin = seq(); } user_stop(*w->src); { usim::np_scope np; rec.stop_end = seq(); } stopped = true; }
    if (r.fault == 2) usim_alloc_fault_window(1);
    try {
      op.construct_with([&] { return unifex::connect(Snd{gate_sender{&g}}, R{&rec, w->src.p}); });
    } catch (const gate_error&) {
      usim::np_scope np; r.threw = true; usim_probe("wrapped connect threw");
    } catch (const std::bad_alloc&) {
      usim::np_scope np; r.threw = true; usim_probe("allocation of the erased operation failed");
    }
    if (r.fault == 2) usim_alloc_fault_window(0);
    if (r.threw) {
      {
        usim::np_scope np;
        r.regs_after_failed_connect = live_regs(*w->src);
        KIT_CHECK(r.regs_after_failed_connect == 0, "c18.transparent",
                  "connect through any_sender_of threw, yet %d stop callback(s) of the never-constructed operation are still registered on the receiver's stop source (a direct connect leaves none)",
                  r.regs_after_failed_connect);
        KIT_CHECK(!g.started && rec.completions == 0, "c18.transparent", "connect threw but the wrapped operation was started / the receiver completed");
        KIT_CHECK(!g.connected || g.destroyed, "c02.leak-object", "connect threw after the wrapped operation had been connected, which was never destroyed");
      }
      if (r.stop_mode == 3 && !stopped) { user_stop(*w->src); stopped = true; }  // must not reach into the failed operation
      continue;
    }
    std::thread stopper;
    bool have_stopper = r.stop_mode == 2 && !stopped;
    if (have_stopper) {
      stopped = true;
      stopper = std::thread([w, i, &r] {
        struct P { OpRec* r; static int pred(void* p) { return ((P*)p)->r->start_begin != 0; } } p{&w->rec[i]};
        usim_wait(&P::pred, &p);
        yields(r.stop_yields);
        { usim::np_scope np; w->rec[i].stop_begin = seq(); }
        user_stop(*w->src);
        { usim::np_scope np; w->rec[i].stop_end = seq(); }
      });
    }
    rec.begin_start();
    unifex::start(*op);
    rec.end_start();
    if (r.stop_mode == 3 && !stopped) { { usim::np_scope np; rec.stop_begin = seq(); } user_stop(*w->src); { usim::np_scope np; rec.stop_end = seq(); } stopped = true; }
    // liveness is the harness's job: a gate that ignores stop is opened by the opener thread
    rec.wait();
    op.destroy();
    if (have_stopper) stopper.join();
    {
      usim::np_scope np;
      KIT_CHECK(g.started && g.claimed, "c18.transparent", "the receiver was completed although the wrapped operation never ran");
      KIT_CHECK(rec.channel == g.delivered && (g.delivered != CH_VALUE || rec.value == g.payload), "c18.transparent",
                "wrapped sender delivered %s %ld, the receiver of any_sender_of got %s %ld", ch_name(g.delivered), g.payload, ch_name(rec.channel), rec.value);
      KIT_CHECK(live_regs(*w->src) == 0, "c18.transparent", "%d stop callback(s) still registered on the receiver's stop source after the operation completed and was destroyed", live_regs(*w->src));
      // a stop request that had returned before the wrapped operation completed was visible to it
      if (rec.stop_end && g.complete_begin > rec.stop_end && g.start_seq && g.stop_possible) {
        KIT_CHECK(g.stop_at_completion, "c04.child-not-stopped", "the stop request on the receiver's source returned before the wrapped operation completed, which did not see it through any_sender_of's token");
        usim_probe("stop forwarded through the erased operation");
      }
      if (stopped && !rec.stop_end && g.stop_possible && g.start_seq) {
        // stop was requested in an earlier round: the wrapped operation starts already stopped
        KIT_CHECK(g.stop_at_start, "c04.started-after-stop", "stop had been requested before this operation was connected, yet the wrapped operation saw stop_requested()==false at start");
      }
    }
  }
  w->finished = 1;
  opener_thr.join();
  w->src.destroy();  // (sim source: reports registrations that are still live)
  { usim::np_scope np; delete w; }
}

void body_sim(void*) { body<kit::sim_stop_source>("third-party"); }
void body_inplace(void*) { body<unifex::inplace_stop_source>("inplace"); }

}  // namespace wanysnd

int main(int argc, char** argv) {
  static const usim_workload table[] = {{"anysnd_sim", wanysnd::body_sim}, {"anysnd_inplace", wanysnd::body_inplace}};
  return usim_main(argc, argv, table, 2);
}
