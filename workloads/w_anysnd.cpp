// w_anysnd — C18(a) for any_sender_of<> seen from outside the interpreter: the wrapper is connected to
// a receiver whose stop token is a THIRD-PARTY token (kit::sim_stop_token) or an inplace_stop_token,
// so that the library's own stop-token adaption inside the type-erased operation (subscribe before the
// erased connect, unsubscribe on completion / destruction) runs for real. 1-3 operations in sequence
// on the same stop source; faults: the wrapped sender's connect() throws, operator new fails while
// the erased operation is allocated; stop requested before connect, after a failed connect, racing
// the completion, or never.
// Oracles (c18.transparent = "connecting the wrapper behaves like connecting the wrapped sender"):
// a failed connect leaves nothing registered on the receiver's stop source, nothing started, nothing
// leaked, and a later stop request touches no freed memory; a successful one delivers exactly the
// wrapped sender's result, forwards a stop request to it, and leaves no registration behind.
#include <kit/base.hpp>
#include <kit/gate.hpp>
#include <kit/items.hpp>
#include <kit/recv.hpp>
#include <kit/simstop.hpp>

#include <unifex/any_scheduler.hpp>
#include <unifex/any_sender_of.hpp>
#include <unifex/inline_scheduler.hpp>
#include <unifex/scheduler_concepts.hpp>
#include <unifex/single_thread_context.hpp>
#include <unifex/static_thread_pool.hpp>

using namespace kit;

namespace wanysnd {

constexpr int kMaxOps = 3;

struct Round {
  int fault = 0;      // 0 none, 1 wrapped connect throws, 2 allocation failures during connect
  int stop_mode = 0;  // 0 none, 1 before connect, 2 racing (after yields), 3 right after a failed connect / after start returned
  int stop_yields = 0;
  bool threw = false;
  int regs_after_failed_connect = -1;
};

template <class Source>
struct World {
  Gate g[kMaxOps];
  OpRec rec[kMaxOps];
  Round rd[kMaxOps];
  int nops = 1;
  arena_box<Source> src;  // one stop source for the whole sequence
  volatile int finished = 0;
};

template <class Source>
struct TokReceiver {
  OpRec* rec;
  Source* src;
  void set_value(long v) && noexcept { rec->complete(CH_VALUE, v); }
  template <class E>
  void set_error(E&&) && noexcept { rec->complete(CH_ERROR); }
  void set_done() && noexcept { rec->complete(CH_DONE); }
  friend auto tag_invoke(unifex::tag_t<unifex::get_stop_token>, const TokReceiver& r) noexcept { return r.src->get_token(); }
};

inline int live_regs(kit::sim_stop_source& s) { return s.live_registrations(); }
inline int live_regs(unifex::inplace_stop_source&) { return 0; }  // (not observable; the shadow memory covers it)
inline void user_stop(kit::sim_stop_source& s) { s.request_stop(true); }
inline void user_stop(unifex::inplace_stop_source& s) { s.request_stop(); }

template <class Source>
void body(const char* tokname) {
  using W = World<Source>;
  W* w;
  { usim::np_scope np; w = new W(); }
  w->nops = draw_range(1, kMaxOps);
  bool any_alloc = false;
  for (int i = 0; i < kMaxOps; ++i) {
    Gate& g = w->g[i];
    g.id = i;
    g.oracle = "c18";
    int o = draw(6);
    g.outcome = o < 3 ? CH_VALUE : o < 5 ? CH_ERROR : CH_DONE;
    g.payload = 700 + i;
    g.mode = draw(3) == 0 ? 0 : 1;
    g.on_stop = draw(4) == 0 ? 0 : 1;
    Round& r = w->rd[i];
    int f = draw(5);
    r.fault = f == 0 ? 1 : f == 1 ? 2 : 0;
    if (r.fault == 1) g.throw_on_connect = true;
    if (r.fault == 2) any_alloc = true;
    int sm = draw(8);
    r.stop_mode = sm < 4 ? 0 : sm < 5 ? 1 : sm < 7 ? 2 : 3;
    r.stop_yields = draw_small(10);
    w->rec[i].what = "any_sender_of";
    w->rec[i].a = i;
    w->rec[i].oracle_double = "c01.double-signal";
  }
  if (any_alloc) usim_fault_rate(USIM_F_ALLOC, 500);
  if (draw(4) == 0) usim_fault_rate(USIM_F_CAS_WEAK, 100);
  usim_sample("any_sender_of over %s token: ops=%d faults=%d%d%d stop=%d%d%d", tokname, w->nops, w->rd[0].fault, w->rd[1].fault, w->rd[2].fault, w->rd[0].stop_mode, w->rd[1].stop_mode,
              w->rd[2].stop_mode);
  w->src.construct();
  gate_opener opener{w->g, kMaxOps, &w->finished, draw_small(6)};
  std::thread opener_thr([&opener] { opener.run(); });
  bool stopped = false;  // a stop source fires once: later rounds run with stop already requested
  for (int i = 0; i < w->nops; ++i) {
    Round& r = w->rd[i];
    Gate& g = w->g[i];
    OpRec& rec = w->rec[i];
    using R = TokReceiver<Source>;
    using Snd = unifex::any_sender_of<long>;
    using Op = unifex::connect_result_t<Snd, R>;
    arena_box<Op> op;
    if (r.stop_mode == 1 && !stopped) { { usim::np_scope np; rec.stop_begin = seq(); } user_stop(*w->src); { usim::np_scope np; rec.stop_end = seq(); } stopped = true; }
    if (r.fault == 2) usim_alloc_fault_window(1);
    try {
      op.construct_with([&] { return unifex::connect(Snd{gate_sender{&g}}, R{&rec, w->src.p}); });
    } catch (const gate_error&) {
      usim::np_scope np; r.threw = true; usim_probe("wrapped connect threw");
    } catch (const std::bad_alloc&) {
      usim::np_scope np; r.threw = true; usim_probe("allocation of the erased operation failed");
    }
    if (r.fault == 2) usim_alloc_fault_window(0);
    if (r.threw) {
      {
        usim::np_scope np;
        r.regs_after_failed_connect = live_regs(*w->src);
        KIT_CHECK(r.regs_after_failed_connect == 0, "c18.transparent",
                  "connect through any_sender_of threw, yet %d stop callback(s) of the never-constructed operation are still registered on the receiver's stop source (a direct connect leaves none)",
                  r.regs_after_failed_connect);
        KIT_CHECK(!g.started && rec.completions == 0, "c18.transparent", "connect threw but the wrapped operation was started / the receiver completed");
        KIT_CHECK(!g.connected || g.destroyed, "c02.leak-object", "connect threw after the wrapped operation had been connected, which was never destroyed");
      }
      if (r.stop_mode == 3 && !stopped) { user_stop(*w->src); stopped = true; }  // must not reach into the failed operation
      continue;
    }
    std::thread stopper;
    bool have_stopper = r.stop_mode == 2 && !stopped;
    if (have_stopper) {
      stopped = true;
      stopper = std::thread([w, i, &r] {
        struct P { OpRec* r; static int pred(void* p) { return ((P*)p)->r->start_begin != 0; } } p{&w->rec[i]};
        usim_wait(&P::pred, &p);
        yields(r.stop_yields);
        { usim::np_scope np; w->rec[i].stop_begin = seq(); }
        user_stop(*w->src);
        { usim::np_scope np; w->rec[i].stop_end = seq(); }
      });
    }
    rec.begin_start();
    unifex::start(*op);
    rec.end_start();
    if (r.stop_mode == 3 && !stopped) { { usim::np_scope np; rec.stop_begin = seq(); } user_stop(*w->src); { usim::np_scope np; rec.stop_end = seq(); } stopped = true; }
    // liveness is the harness's job: a gate that ignores stop is opened by the opener thread
    rec.wait();
    op.destroy();
    if (have_stopper) stopper.join();
    {
      usim::np_scope np;
      KIT_CHECK(g.started && g.claimed, "c18.transparent", "the receiver was completed although the wrapped operation never ran");
      KIT_CHECK(rec.channel == g.delivered && (g.delivered != CH_VALUE || rec.value == g.payload), "c18.transparent",
                "wrapped sender delivered %s %ld, the receiver of any_sender_of got %s %ld", ch_name(g.delivered), g.payload, ch_name(rec.channel), rec.value);
      KIT_CHECK(live_regs(*w->src) == 0, "c18.transparent", "%d stop callback(s) still registered on the receiver's stop source after the operation completed and was destroyed", live_regs(*w->src));
      // a stop request that had returned before the wrapped operation completed was visible to it
      if (rec.stop_end && g.complete_begin > rec.stop_end && g.start_seq && g.stop_possible) {
        KIT_CHECK(g.stop_at_completion, "c04.child-not-stopped", "the stop request on the receiver's source returned before the wrapped operation completed, which did not see it through any_sender_of's token");
        usim_probe("stop forwarded through the erased operation");
      }
      if (stopped && !rec.stop_end && g.stop_possible && g.start_seq) {
        // stop was requested in an earlier round: the wrapped operation starts already stopped
        KIT_CHECK(g.stop_at_start, "c04.started-after-stop", "stop had been requested before this operation was connected, yet the wrapped operation saw stop_requested()==false at start");
      }
    }
  }
  w->finished = 1;
  opener_thr.join();
  w->src.destroy();  // (sim source: reports registrations that are still live)
  { usim::np_scope np; delete w; }
}


template <class Source>
struct VoidTokReceiver {
  OpRec* rec;
  Source* src;
  void set_value() && noexcept { rec->complete(CH_VALUE, 0); }
  template <class E>
  void set_error(E&&) && noexcept { rec->complete(CH_ERROR); }
  void set_done() && noexcept { rec->complete(CH_DONE); }
  friend auto tag_invoke(unifex::tag_t<unifex::get_stop_token>, const VoidTokReceiver& r) noexcept { return r.src->get_token(); }
};

// ------------------------------------------------------------------ any_scheduler / any_scheduler_ref
// The wrapper must behave like the scheduler it wraps: schedule() through it completes where (and as)
// schedule() of the wrapped scheduler does, copies compare equal, wrappers of different schedulers
// (another context, another type) compare unequal, a failed connect leaves nothing behind.
template <class Source>
void body_sched(const char* tokname) {
  struct SW {
    OpRec rec[4];
    arena_box<Source> src;
  };
  SW* w;
  { usim::np_scope np; w = new SW(); }
  int kind = draw(3);  // 0 inline, 1 single_thread_context, 2 static_thread_pool
  int nops = draw_range(1, 4);
  bool use_ref = draw(3) == 0;
  int stop_at = draw(5);   // stop requested before operation #stop_at is connected (>= nops: never)
  int alloc_at = draw(6);  // allocation failures while operation #alloc_at is connected (>= nops: never)
  if (alloc_at < nops) usim_fault_rate(USIM_F_ALLOC, 500);
  usim_sample("any_scheduler%s over %s token: kind=%d ops=%d stop_at=%d alloc_at=%d", use_ref ? "_ref" : "", tokname, kind, nops, stop_at, alloc_at);
  w->src.construct();
  arena_box<unifex::single_thread_context> c1, c2;
  arena_box<unifex::static_thread_pool> pool;
  c1.construct();
  c2.construct();
  pool.construct(2u);
  std::thread::id ctx_thread = c1->get_thread_id();
  auto run_with = [&](auto sched, auto other_same_type) {
    unifex::any_scheduler as = sched;
    unifex::any_scheduler copy = as;
    unifex::any_scheduler other = other_same_type;
    unifex::any_scheduler inl = unifex::inline_scheduler{};
    {
      usim::np_scope np;
      KIT_CHECK(as == copy && !(as != copy), "c18.transparent", "a copy of an any_scheduler does not compare equal to the original");
      bool same = sched == other_same_type;
      KIT_CHECK((as == other) == same, "c18.transparent", "any_scheduler equality (%d) differs from the wrapped schedulers' equality (%d)", (int)(as == other), (int)same);
      if (kind != 0) KIT_CHECK(as != inl, "c18.transparent", "any_scheduler over a thread context compares equal to any_scheduler over inline_scheduler");
    }
    for (int i = 0; i < nops; ++i) {
      OpRec& rec = w->rec[i];
      rec.what = "schedule(any_scheduler)";
      rec.a = i;
      rec.oracle_double = "c01.double-signal";
      if (i == stop_at) { { usim::np_scope np; rec.stop_begin = seq(); } user_stop(*w->src); }
      bool stopped = i >= stop_at;
      using VoidReceiver = VoidTokReceiver<Source>;
      int start_tid = usim_here();
      bool threw = false;
      auto drive = [&](auto snd) {
        using Op = unifex::connect_result_t<decltype(snd), VoidReceiver>;
        arena_box<Op> op;
        if (i == alloc_at) usim_alloc_fault_window(1);
        try {
          op.construct_with([&] { return unifex::connect(std::move(snd), VoidReceiver{&rec, w->src.p}); });
        } catch (const std::bad_alloc&) {
          usim::np_scope np; threw = true; usim_probe("allocation of the erased schedule operation failed");
        }
        if (i == alloc_at) usim_alloc_fault_window(0);
        if (threw) return;
        rec.begin_start();
        unifex::start(*op);
        rec.end_start();
        rec.wait();
        op.destroy();
      };
      if (use_ref) { unifex::any_scheduler_ref ref = as; drive(unifex::schedule(ref)); }
      else drive(unifex::schedule(as));
      usim::np_scope np;
      if (threw) {
        KIT_CHECK(rec.completions == 0, "c18.transparent", "connect threw but the receiver was completed");
        KIT_CHECK(live_regs(*w->src) == 0, "c18.transparent", "connect threw, yet %d stop callback(s) are still registered on the receiver's stop source", live_regs(*w->src));
        continue;
      }
      KIT_CHECK(rec.completions == 1, "c01.lost-completion", "schedule() through any_scheduler never completed");
      KIT_CHECK(rec.channel != CH_ERROR, "c18.transparent", "schedule() through any_scheduler completed with an error");
      if (!stopped) KIT_CHECK(rec.channel == CH_VALUE, "c18.transparent", "schedule() through any_scheduler completed with done although stop was never requested");
      if (rec.channel == CH_VALUE) {
        if (kind == 0) KIT_CHECK(rec.in_start && rec.done_tid == start_tid, "c18.transparent", "schedule(any_scheduler(inline_scheduler)) did not complete inline");
        if (kind == 1) KIT_CHECK(rec.done_thread == ctx_thread, "c18.transparent", "schedule(any_scheduler(ctx scheduler)) completed on T%d, not on the context's thread", rec.done_tid);
        if (kind == 2) KIT_CHECK(rec.done_tid != start_tid, "c18.transparent", "schedule(any_scheduler(pool scheduler)) completed on the starting thread");
        usim_probe("scheduled through the wrapper");
      }
      KIT_CHECK(live_regs(*w->src) == 0, "c18.transparent", "%d stop callback(s) still registered after the operation completed and was destroyed", live_regs(*w->src));
    }
  };
  if (kind == 0) run_with(unifex::inline_scheduler{}, unifex::inline_scheduler{});
  else if (kind == 1) { if (draw(2)) run_with(c1->get_scheduler(), c2->get_scheduler()); else run_with(c1->get_scheduler(), c1->get_scheduler()); }
  else run_with(pool->get_scheduler(), pool->get_scheduler());
  c1.destroy();
  c2.destroy();
  pool.destroy();
  w->src.destroy();
  { usim::np_scope np; delete w; }
}
void body_sched_sim(void*) { body_sched<kit::sim_stop_source>("third-party"); }
void body_sched_inplace(void*) { body_sched<unifex::inplace_stop_source>("inplace"); }

void body_sim(void*) { body<kit::sim_stop_source>("third-party"); }
void body_inplace(void*) { body<unifex::inplace_stop_source>("inplace"); }

}  // namespace wanysnd

int main(int argc, char** argv) {
  static const usim_workload table[] = {{"anysnd_sim", wanysnd::body_sim}, {"anysnd_inplace", wanysnd::body_inplace},
                                       {"anysched_sim", wanysnd::body_sched_sim}, {"anysched_inplace", wanysnd::body_sched_inplace}};
  return usim_main(argc, argv, table, 4);
}
