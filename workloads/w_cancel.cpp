// w_cancel — C19: completion vs cancellation races have one winner in the cancel wrappers.
// Real code: cancellable/try_complete, detach_on_cancel, stop_on_request, canary/watcher/guard.
// See DESIGN.md §8 C19.
#include <kit/base.hpp>
#include <kit/gate.hpp>
#include <kit/recv.hpp>
#include <kit/simstop.hpp>

#include <unifex/canary.hpp>
#include <unifex/cancellable.hpp>
#include <unifex/detach_on_cancel.hpp>
#include <unifex/inline_scheduler.hpp>
#include <unifex/stop_on_request.hpp>

using namespace kit;

namespace {

using S = unifex::inline_scheduler;

// a root record whose op state is destroyed inside the completion (arena block)
struct Root {
  OpRec rec;
  unifex::inplace_stop_source stop;
  void (*free_op)(Root*) = nullptr;
  void* box = nullptr;
  bool free_in_completion = true;
  Root() { rec.stop = &stop; }
};
void root_hook(OpRec*, void* arg) {
  Root* r = (Root*)arg;
  if (r->free_in_completion && r->free_op) r->free_op(r);
}
template <class Sender>
void root_start(Root* r, Sender&& snd) {
  using R = SchedReceiver<S>;
  using Op = unifex::connect_result_t<Sender, R>;
  arena_box<Op>* box;
  { usim::np_scope np; box = new arena_box<Op>(); }
  r->box = box;
  r->free_op = [](Root* rr) { auto* b = (arena_box<Op>*)rr->box; if (b->alive()) b->destroy(); };
  r->rec.stop = &r->stop;
  r->rec.hook = &root_hook;
  r->rec.hook_arg = r;
  box->construct_with([&] { return unifex::connect((Sender &&) snd, R{&r->rec, S{}}); });
  r->rec.begin_start();
  unifex::start(**box);
  r->rec.end_start();
}
template <class Op>
void root_finish(Root* r) {
  auto* b = (arena_box<Op>*)r->box;
  if (b->alive()) b->destroy();
  usim::np_scope np;
  delete b;
}

// ------------------------------------------------------------------ detach_on_cancel
void body_detach(void*) {
  Root* root;
  Gate* g;
  { usim::np_scope np; root = new Root(); g = new Gate(); }
  int o = draw(6);
  g->outcome = o < 4 ? CH_VALUE : o < 5 ? CH_ERROR : CH_DONE;
  g->payload = 77;
  g->mode = draw(4) == 0 ? 0 : 1;
  g->on_stop = draw(2);
  root->free_in_completion = draw(4) != 0;
  int stop_mode = draw(4);  // 0 none, 1 before start, 2 racing, 3 after completion
  int stop_yields = draw_small(12), open_yields = draw_small(12);
  root->rec.what = "detach_on_cancel";
  root->rec.oracle_double = "c19.winner";
  if (draw(3) == 0) usim_fault_rate(USIM_F_CAS_WEAK, 100);
  usim_sample("detach_on_cancel: gate=%s%s on_stop=%d stop_mode=%d free_in_completion=%d", ch_name(g->outcome), g->mode ? "" : "!", g->on_stop, stop_mode, (int)root->free_in_completion);
  volatile int finished = 0;
  if (stop_mode == 1) root->rec.request_stop();
  auto snd = unifex::detach_on_cancel(gate_sender{g});
  using Op = unifex::connect_result_t<decltype(snd), SchedReceiver<S>>;
  std::thread stopper([root, stop_mode, stop_yields] {
    if (stop_mode < 2) return;
    if (stop_mode == 3) root->rec.wait();
    else { struct P { OpRec* r; static int pred(void* p) { return ((P*)p)->r->start_begin != 0; } } p{&root->rec}; usim_wait(&P::pred, &p); }
    yields(stop_yields);
    root->rec.request_stop();
  });
  gate_opener opener{g, 1, &finished, open_yields};
  std::thread opener_thr([&opener] { opener.run(); });
  root_start(root, std::move(snd));
  root->rec.wait();
  stopper.join();
  // the abandoned child may still be running: let it finish, then everything must be freed
  {
    struct P { Gate* g; static int pred(void* p) { auto* g = ((P*)p)->g; return !g->started || g->claimed; } } p{g};
    usim_wait(&P::pred, &p);
  }
  finished = 1;
  opener_thr.join();
  root_finish<Op>(root);
  {
    struct P { Gate* g; static int pred(void* p) { auto* g = ((P*)p)->g; return !g->connected || g->destroyed; } } p{g};
    // the detached state (and with it the child op) is freed by whoever finishes last
    usim_wait(&P::pred, &p);
  }
  {
    usim::np_scope np;
    OpRec& r = root->rec;
    KIT_CHECK(r.completions == 1, "c19.winner", "detach_on_cancel completed %d times", r.completions);
    if (r.channel == CH_DONE && g->delivered != CH_DONE) {
      KIT_CHECK(r.stop_begin != 0, "c19.winner", "receiver got done although the child delivered %s and stop was never requested", ch_name(g->delivered));
      // done is delivered at once: before request_stop() returned (or, if stop preceded start, inside start())
      KIT_CHECK(r.done_seq < r.stop_end || r.in_start, "c19.detach-prompt", "stop was requested but the receiver was completed only after request_stop() had returned");
      usim_probe("detached on cancel");
    } else if (g->delivered != CH_NONE && r.channel != CH_DONE) {
      KIT_CHECK(r.channel == g->delivered && (r.channel != CH_VALUE || r.value == g->payload), "c19.winner", "receiver got %s but the child delivered %s", ch_name(r.channel), ch_name(g->delivered));
      if (r.stop_begin) usim_probe("completion beat the stop request");
    }
    if (g->started) KIT_CHECK(g->claimed && g->destroyed, "c19.detach-free", "the abandoned child was never finished/freed");
    if (g->started && r.channel == CH_DONE && g->complete_begin > r.done_seq) usim_probe("child finished after the receiver was completed");
  }
  { usim::np_scope np; delete root; delete g; }
}

// ------------------------------------------------------------------ stop_on_request
void body_sor(void*) {
  Root* root;
  { usim::np_scope np; root = new Root(); }
  arena_box<unifex::inplace_stop_source> ext1;
  arena_box<kit::sim_stop_source> ext2;
  ext1.construct();
  ext2.construct();
  int nstop = draw_range(1, 3);
  int which[3], pre[3];
  for (int i = 0; i < nstop; ++i) { which[i] = draw(3); pre[i] = draw_small(12); }
  int pre_stopped = draw(5) == 0 ? draw(3) : -1;
  int variant = draw(3);  // 0: receiver token only, 1: + inplace token, 2: + inplace + sim token
  root->free_in_completion = draw(4) != 0;
  root->rec.what = "stop_on_request";
  root->rec.oracle_double = "c19.winner";
  if (draw(3) == 0) usim_fault_rate(USIM_F_CAS_WEAK, 100);
  usim_sample("stop_on_request: variant=%d stoppers=%d pre_stopped=%d", variant, nstop, pre_stopped);
  uint64_t first_stop_begin = 0;
  auto fire = [&](int w) {
    { usim::np_scope np; if (!first_stop_begin) first_stop_begin = seq(); }
    if (w == 0 || variant == 0) root->rec.request_stop();
    else if (w == 1 || variant == 1) ext1->request_stop();
    else ext2->request_stop(true);
  };
  if (pre_stopped >= 0) fire(pre_stopped);
  std::thread thr[3];
  for (int i = 0; i < nstop; ++i)
    thr[i] = std::thread([&, i] {
      struct P { OpRec* r; static int pred(void* p) { return ((P*)p)->r->start_begin != 0; } } p{&root->rec};
      usim_wait(&P::pred, &p);
      yields(pre[i]);
      fire(which[i]);
    });
  if (variant == 0) {
    auto snd = unifex::stop_on_request();
    root_start(root, std::move(snd));
  } else if (variant == 1) {
    auto snd = unifex::stop_on_request(ext1->get_token());
    root_start(root, std::move(snd));
  } else {
    auto snd = unifex::stop_on_request(ext1->get_token(), ext2->get_token());
    root_start(root, std::move(snd));
  }
  root->rec.wait();
  for (int i = 0; i < nstop; ++i) thr[i].join();
  root->free_op(root);
  {
    usim::np_scope np;
    OpRec& r = root->rec;
    KIT_CHECK(r.completions == 1 && r.channel == CH_DONE, "c19.winner", "stop_on_request completed %d times with %s", r.completions, ch_name(r.channel));
    KIT_CHECK(first_stop_begin && first_stop_begin < r.done_seq, "c19.winner", "stop_on_request completed before any stop was requested");
    KIT_CHECK(ext2->live_registrations() == 0, "c04.live-registration-at-completion", "stop_on_request left %d callback(s) registered on an external token", ext2->live_registrations());
  }
  ext1.destroy();  // asserts that no callback is left registered
  ext2.destroy();
  { usim::np_scope np; delete root; }
}

// ------------------------------------------------------------------ cancellable / try_complete
struct RawCtl {
  // plan
  int complete_mode = 1;  // 0 inside start(), 1 from a completer thread, 2 never (only stop completes it)
  bool stops_early = false;
  // history
  int starts = 0, stop_hooks = 0, completions_won = 0;
  uint64_t start_seq = 0, start_ret = 0, stop_hook_seq = 0, win_seq = 0;
  bool started = false;
  void* op = nullptr;
  bool (*complete_fn)(RawCtl*) noexcept = nullptr;
  volatile int armed = 0;
};

RawCtl* g_rawctl = nullptr;  // one per run: lets stop() judge the call before touching *this

struct RawSender {
  RawCtl* c;
  template <template <class...> class Variant, template <class...> class Tuple>
  using value_types = Variant<Tuple<>>;
  template <template <class...> class Variant>
  using error_types = Variant<std::exception_ptr>;
  static constexpr bool sends_done = true;
  template <class R>
  struct op {
    RawCtl* c;
    R r;
    op(RawCtl* cc, R&& rr) : c(cc), r((R &&) rr) {
      usim::np_scope np;
      c->op = this;
      c->complete_fn = &op::complete_from_thread;
    }
    op(op&&) = delete;
    void start() noexcept {
      RawCtl* cc = c;
      {
        usim::np_scope np;
        KIT_CHECK(cc->starts == 0, "c19.winner", "nested start() called twice");
        cc->starts++;
        cc->started = true;
        cc->start_seq = seq();
      }
      if (cc->complete_mode == 0) {
        if (unifex::_cancellable::try_complete(this)) { won(cc); unifex::set_value(std::move(r)); }
        return;
      }
      cc->armed = 1;  // nothing of *this is touched afterwards: a completer may free us
    }
    void stop() noexcept {
      RawCtl* cc = g_rawctl;
      {
        usim::np_scope np;
        cc->stop_hooks++;
        cc->stop_hook_seq = seq();
        KIT_CHECK(cc->stop_hooks == 1, "c19.stop-hook", "the operation's stop() hook ran %d times", cc->stop_hooks);
        // judged before anything of *this is read: the op may already have been freed by the winner
        KIT_CHECK(cc->completions_won == 0, "c19.touch-after-winner", "stop() hook invoked on an operation whose completion had already been won and delivered by another thread (in_start=%d)", (int)(cc->start_ret == 0));
        if (!cc->stops_early) KIT_CHECK(cc->started, "c19.stop-hook", "stop() hook ran on an operation that was never started (not in skip-start mode)");
      }
      if (unifex::_cancellable::try_complete(this)) { won(cc); unifex::set_done(std::move(r)); }
    }
    static void won(RawCtl* cc) {
      usim::np_scope np;
      cc->completions_won++;
      cc->win_seq = seq();
      KIT_CHECK(cc->completions_won == 1, "c19.winner", "try_complete() reported success %d times", cc->completions_won);
    }
    static bool complete_from_thread(RawCtl* cc) noexcept {
      op* self = (op*)cc->op;
      if (unifex::_cancellable::try_complete(self)) { won(cc); unifex::set_value(std::move(self->r)); return true; }
      return false;
    }
  };
  template <class R>
  friend op<unifex::remove_cvref_t<R>> tag_invoke(unifex::tag_t<unifex::connect>, RawSender&& s, R&& r) noexcept {
    return op<unifex::remove_cvref_t<R>>{s.c, unifex::remove_cvref_t<R>((R &&) r)};
  }
};

template <bool StopsEarly>
void run_raw(Root* root, RawCtl* c, int stop_mode, int stop_yields, int complete_yields) {
  auto snd = unifex::cancellable<RawSender, StopsEarly>{RawSender{c}};
  using Op = unifex::connect_result_t<decltype(snd), SchedReceiver<S>>;
  if (stop_mode == 1) root->rec.request_stop();
  std::thread stopper([root, stop_mode, stop_yields] {
    if (stop_mode < 2) return;
    if (stop_mode == 3) root->rec.wait();
    else { struct P { OpRec* r; static int pred(void* p) { return ((P*)p)->r->start_begin != 0; } } p{&root->rec}; usim_wait(&P::pred, &p); }
    yields(stop_yields);
    if (stop_mode == 3) root->stop.request_stop();  // after completion: must be a no-op for the (possibly freed) op
    else root->rec.request_stop();
  });
  std::thread completer([root, c, complete_yields] {
    if (c->complete_mode != 1) return;
    struct P { RawCtl* c; OpRec* r; static int pred(void* p) { auto* q = (P*)p; return q->c->armed || q->r->flag; } } p{c, &root->rec};
    usim_wait(&P::pred, &p);
    if (root->rec.flag) return;  // already completed by the stop path (skip-start or stop before arming)
    yields(complete_yields);
    bool done;
    { usim::np_scope np; done = root->rec.completions != 0; }
    // a late natural completion after the stop path won would touch a freed op: the real producer is
    // told by try_complete()'s return value, which needs the op alive; the harness only calls it while
    // the operation cannot have been freed, i.e. when it has not completed yet *or* is kept alive
    if (!done || !root->free_in_completion) c->complete_fn(c);
  });
  root_start(root, std::move(snd));
  { usim::np_scope np; c->start_ret = seq(); }
  if (c->complete_mode == 2 && (stop_mode == 0 || stop_mode == 3)) root->rec.request_stop();  // somebody has to end it
  root->rec.wait();
  stopper.join();
  completer.join();
  root_finish<Op>(root);
}

void body_raw(void*) {
  Root* root;
  RawCtl* c;
  { usim::np_scope np; root = new Root(); c = new RawCtl(); g_rawctl = c; }
  c->complete_mode = draw(6) == 0 ? 0 : draw(5) == 0 ? 2 : 1;
  c->stops_early = draw_bool();
  int stop_mode = draw(4);
  int stop_yields = draw_small(12), complete_yields = draw_small(12);
  root->free_in_completion = draw(4) != 0;
  root->rec.what = "cancellable";
  root->rec.oracle_double = "c19.winner";
  if (draw(3) == 0) usim_fault_rate(USIM_F_CAS_WEAK, 100);
  usim_sample("cancellable: complete_mode=%d stops_early=%d stop_mode=%d free_in_completion=%d", c->complete_mode, (int)c->stops_early, stop_mode, (int)root->free_in_completion);
  if (c->stops_early) run_raw<true>(root, c, stop_mode, stop_yields, complete_yields);
  else run_raw<false>(root, c, stop_mode, stop_yields, complete_yields);
  {
    usim::np_scope np;
    OpRec& r = root->rec;
    KIT_CHECK(r.completions == 1, "c19.winner", "cancellable completed %d times", r.completions);
    KIT_CHECK(c->completions_won == 1, "c19.winner", "%d parties won try_complete()", c->completions_won);
    if (r.channel == CH_DONE) KIT_CHECK(c->stop_hooks == 1 && r.stop_begin, "c19.stop-hook", "done delivered without the stop hook / a stop request");
    if (c->stop_hooks && !c->started) { KIT_CHECK(c->stops_early, "c19.stop-hook", "stop hook instead of start() without StopsEarly"); usim_probe("skip-start: stop() instead of start()"); }
    if (c->stops_early && c->stop_hooks && c->starts) KIT_CHECK(c->stop_hook_seq > c->start_seq, "c19.stop-hook", "StopsEarly: both stop() before start and start() ran");
    if (c->stop_hooks && r.channel == CH_VALUE) usim_probe("completion beat the stop hook");
    if (c->stop_hooks && r.channel == CH_DONE && c->started) usim_probe("stop hook cancelled a started op");
  }
  { usim::np_scope np; delete root; delete c; }
}

// ------------------------------------------------------------------ canary
void body_canary(void*) {
  struct CW {
    arena_box<unifex::canary> can;
    uint64_t dtor_begin = 0, dtor_end = 0, guard_begin = 0, guard_end = 0, watcher_dtor_begin = 0;
    bool alive_result = false, checked = false;
    volatile int watching = 0;
  };
  CW* w;
  { usim::np_scope np; w = new CW(); }
  int dpre = draw_small(12), wpre = draw_small(12), hold = draw_small(8);
  bool check_alive = draw(5) != 0;
  bool watch_at_all = draw(6) != 0;
  if (draw(3) == 0) usim_fault_rate(USIM_F_CAS_WEAK, 100);
  usim_sample("canary: dpre=%d wpre=%d hold=%d check=%d watch=%d", dpre, wpre, hold, (int)check_alive, (int)watch_at_all);
  w->can.construct();
  std::thread watcher_thr([w, wpre, hold, check_alive, watch_at_all] {
    if (!watch_at_all) { w->watching = 1; return; }
    auto wt = w->can->watch();  // must be created while the canary is alive: the destroyer waits for `watching`
    w->watching = 1;
    yields(wpre);
    if (check_alive) {
      { usim::np_scope np; w->guard_begin = seq(); }
      {
        auto g = wt.alive();
        bool a = (bool)g;
        { usim::np_scope np; w->alive_result = a; w->checked = true;
          if (a) KIT_CHECK(w->dtor_end == 0, "c19.canary", "alive() returned true although ~canary had already returned"); }
        yields(hold);
        { usim::np_scope np; if (a) KIT_CHECK(w->dtor_end == 0, "c19.canary", "~canary returned while a guard was held"); w->guard_end = seq(); }
      }
    }
    { usim::np_scope np; w->watcher_dtor_begin = seq(); }
  });
  wait_flag(&w->watching);
  yields(dpre);
  { usim::np_scope np; w->dtor_begin = seq(); }
  w->can.destroy();  // blocks only while a guard is held
  { usim::np_scope np; w->dtor_end = seq(); }
  watcher_thr.join();
  {
    usim::np_scope np;
    if (w->checked && !w->alive_result)
      KIT_CHECK(w->dtor_begin != 0 && w->dtor_begin < w->guard_end, "c19.canary", "alive() returned false although ~canary had not begun");
    if (w->checked && w->alive_result) usim_probe("guard held the canary alive");
    if (w->checked && !w->alive_result) usim_probe("watcher saw a dead canary");
    if (w->checked && w->alive_result && w->dtor_begin < w->guard_end && w->dtor_begin > w->guard_begin) usim_probe("destructor blocked behind a guard");
  }
  { usim::np_scope np; delete w; }
}

}  // namespace

int main(int argc, char** argv) {
  static const usim_workload table[] = {{"cancel_detach", body_detach}, {"cancel_sor", body_sor}, {"cancel_raw", body_raw}, {"cancel_canary", body_canary}};
  return usim_main(argc, argv, table, 4);
}
