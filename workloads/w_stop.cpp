// w_stop — C03: the stop-token protocol under schedule control.
// Real code: inplace_stop_source/token/callback, inplace_stop_token_adapter,
// fused_stop_source, spin_wait. See DESIGN.md §8 C03.
#include <kit/base.hpp>
#include <kit/simstop.hpp>

#include <unifex/fused_stop_source.hpp>
#include <unifex/inplace_stop_token.hpp>

#include <optional>

using namespace kit;

namespace {

constexpr int kMaxSlots = 8;
constexpr int kMaxReq = 3;
constexpr int kMaxReg = 3;

struct World;
struct Slot;

struct Body {
  Slot* s;
  World* w;
  void operator()() noexcept;
};
using CB = unifex::inplace_stop_callback<Body>;

struct Slot {
  int idx = 0;
  int owner = 0;
  int body = 0;  // 0 plain, 1 destroys itself, 2 destroys slot `target`, 3 registers a nested callback
  int target = -1;
  bool cb_destroys = false;  // destruction right belongs to a callback (or to main at the end)
  bool owner_deregs = true;
  int pre_yields = 0, mid_yields = 0;
  arena_box<CB> box;
  uint64_t reg_begin = 0, reg_end = 0, dereg_begin = 0, dereg_end = 0, inv_begin = 0, inv_end = 0;
  int invoked = 0, inv_tid = -1;
  bool running = false;
};

struct Req {
  int pre_yields = 0;
  uint64_t begin = 0, end = 0;
  bool returned_first = false;  // request_stop() returned false == "I made the transition"
};

struct World {
  arena_box<unifex::inplace_stop_source> src;
  unifex::inplace_stop_token tok;
  Slot slots[kMaxSlots];
  int nslots = 0;
  Req reqs[kMaxReq];
  int nreq = 0;
  int nreg = 0;
  uint64_t stop_visible = 0;  // first seq at which the harness knows stop has been requested
  int nested_invoked = 0;
};

void note_stop_visible(World* w) {
  if (!w->stop_visible) w->stop_visible = seq();
}
void sample_stop(World* w) {
  bool v = w->tok.stop_requested();
  usim::np_scope np;
  if (v) note_stop_visible(w);
  else KIT_CHECK(!w->stop_visible, "c03.stop-reverted", "stop_requested() returned false after stop was known to be requested");
}

void destroy_slot(World* w, Slot& t) {
  {
    usim::np_scope np;
    t.dereg_begin = seq();
  }
  t.box.destroy();  // ~inplace_stop_callback -> remove_callback; then the block is freed
  {
    usim::np_scope np;
    t.dereg_end = seq();
    KIT_CHECK(!t.running || t.inv_tid == usim_here(), "c03.cb-after-dereg",
              "deregistration of callback %d returned while its body is running on T%d", t.idx, t.inv_tid);
  }
  (void)w;
}

void Body::operator()() noexcept {
  Slot* sl = s;  // `this` lives inside the callback object, which bodies 1 may destroy
  World* wd = w;
  {
    usim::np_scope np;
    KIT_CHECK(!sl->running, "c03.cb-concurrent", "callback %d re-entered", sl->idx);
    KIT_CHECK(sl->invoked == 0, "c03.cb-twice", "callback %d invoked twice", sl->idx);
    KIT_CHECK(sl->reg_begin != 0, "c03.cb-spurious", "callback %d invoked before registration began", sl->idx);
    KIT_CHECK(sl->dereg_end == 0, "c03.cb-after-dereg", "callback %d invoked after its deregistration returned", sl->idx);
    sl->invoked++;
    sl->running = true;
    sl->inv_tid = usim_here();
    sl->inv_begin = seq();
    note_stop_visible(wd);
    usim_trace(0xCB00 + sl->idx);
  }
  KIT_CHECK(wd->tok.stop_requested(), "c03.stop-reverted", "stop_requested() false inside a stop callback");
  switch (sl->body) {
    case 1: {
      // Only when invoked by request_stop(): during an inline invocation the
      // constructor is still running and the object must not be destroyed.
      bool constructed;
      { usim::np_scope np; constructed = sl->reg_end != 0; }
      if (constructed) {
        usim_probe("self-deregistration inside callback");
        destroy_slot(wd, *sl);
      }
      break;
    }
    case 2: {
      Slot& t = wd->slots[sl->target];
      bool can;
      {
        usim::np_scope np;
        can = t.reg_end != 0 && t.dereg_begin == 0 && t.box.alive();
      }
      if (can) {
        usim_probe("callback deregisters another callback");
        destroy_slot(wd, t);
      }
      break;
    }
    case 3: {
      // registering on an already-stopped source runs the new callback inline
      struct Nested {
        int* n;
        void operator()() noexcept { usim::np_scope np; ++*n; }
      };
      int ran = 0;
      arena_box<unifex::inplace_stop_callback<Nested>> nb;
      nb.construct(wd->tok, Nested{&ran});
      { usim::np_scope np;
        KIT_CHECK(ran == 1, "c03.cb-missing", "callback registered from inside a callback (stop already requested) ran %d times inline (expected once)", ran); }
      nb.destroy();
      usim_probe("registration from inside a callback");
      break;
    }
    default: break;
  }
  {
    usim::np_scope np;
    sl->inv_end = seq();
    sl->running = false;
  }
}

void registrar(World* w, int me) {
  for (int k = 0; k < w->nslots; ++k) {
    Slot& s = w->slots[k];
    if (s.owner != me) continue;
    yields(s.pre_yields);
    sample_stop(w);
    {
      usim::np_scope np;
      s.reg_begin = seq();
    }
    s.box.construct(w->tok, Body{&s, w});
    {
      usim::np_scope np;
      s.reg_end = seq();
    }
    yields(s.mid_yields);
    if (s.owner_deregs && !s.cb_destroys) {
      sample_stop(w);
      destroy_slot(w, s);
    }
  }
}

void requester(World* w, int me) {
  Req& r = w->reqs[me];
  yields(r.pre_yields);
  {
    usim::np_scope np;
    r.begin = seq();
  }
  bool ret = w->src->request_stop();
  {
    usim::np_scope np;
    r.end = seq();
    r.returned_first = !ret;
    note_stop_visible(w);
  }
  sample_stop(w);
}

void history_checks(World* w) {
  int firsts = 0;
  uint64_t Rb = 0, We = 0;
  for (int i = 0; i < w->nreq; ++i) {
    Req& r = w->reqs[i];
    if (!r.begin) continue;
    if (r.returned_first) { ++firsts; We = r.end; }
    if (!Rb || r.begin < Rb) Rb = r.begin;
  }
  if (w->nreq) KIT_CHECK(firsts == 1, "c03.first-requester", "%d request_stop() calls reported being first (of %d callers)", firsts, w->nreq);
  for (int k = 0; k < w->nslots; ++k) {
    Slot& s = w->slots[k];
    if (!s.reg_begin) continue;
    KIT_CHECK(s.invoked <= 1, "c03.cb-twice", "callback %d invoked %d times", k, s.invoked);
    if (!w->nreq) KIT_CHECK(s.invoked == 0, "c03.cb-spurious", "callback %d invoked although stop was never requested", k);
    if (s.invoked) {
      KIT_CHECK(s.inv_begin > s.reg_begin, "c03.cb-spurious", "callback %d ran before it was registered", k);
      if (s.body != 1 && s.dereg_end) KIT_CHECK(s.inv_begin < s.dereg_end, "c03.cb-after-dereg", "callback %d ran after deregistration", k);
    }
    if (w->nreq && Rb) {
      // registered before any request began, deregistration began after the winning request returned
      if (s.reg_end && s.reg_end < Rb && We && (s.dereg_begin == 0 || s.dereg_begin > We))
        KIT_CHECK(s.invoked == 1, "c03.cb-missing", "callback %d was registered throughout the stop request but never ran", k);
      // deregistered before any request began
      if (s.dereg_end && s.dereg_end < Rb)
        KIT_CHECK(s.invoked == 0, "c03.cb-spurious", "callback %d ran although it was deregistered before any stop request", k);
    }
    // registration that began after stop was known to be requested: runs inline in the constructor
    if (w->stop_visible && s.reg_begin > w->stop_visible) {
      KIT_CHECK(s.invoked == 1 && s.inv_tid == s.owner + 1 && s.inv_begin > s.reg_begin && (s.body == 1 || s.inv_end < s.reg_end),
                "c03.cb-missing", "callback %d registered after stop did not run synchronously inside registration", k);
      usim_probe("registration after stop runs inline");
    }
    if (s.invoked && s.inv_tid != s.owner + 1) usim_probe("callback ran on the requesting thread");
    if (s.invoked && s.dereg_begin && s.dereg_begin < s.inv_end && s.dereg_begin > s.inv_begin && s.body == 0)
      usim_probe("deregistration overlapped the running callback");
  }
}

void body_basic(void*) {
  World* w;
  {
    usim::np_scope np;
    w = new World();
  }
  // ---- plan (all draws happen here, on T0, before any thread exists)
  w->nreg = draw_range(1, kMaxReg);
  w->nreq = draw_range(0, kMaxReq);
  if (w->nreq == 0 && draw(4)) w->nreq = 1;  // mostly at least one requester
  w->nslots = draw_range(1, 6);
  for (int k = 0; k < w->nslots; ++k) {
    Slot& s = w->slots[k];
    s.idx = k;
    s.owner = draw(w->nreg);
    s.body = draw(8) < 5 ? 0 : draw_range(1, 3);
    s.owner_deregs = draw(4) != 0;
    s.pre_yields = draw_small(6);
    s.mid_yields = draw_small(6);
    if (s.body == 1) s.cb_destroys = true;
  }
  for (int k = 0; k < w->nslots; ++k) {
    Slot& s = w->slots[k];
    if (s.body != 2) continue;
    // pick a plain target that nobody else targets and that is not its own destroyer
    s.target = -1;
    for (int j = 0; j < w->nslots; ++j) {
      Slot& t = w->slots[j];
      if (j != k && t.body == 0 && !t.cb_destroys) { s.target = j; t.cb_destroys = true; break; }
    }
    if (s.target < 0) s.body = 0;
  }
  for (int i = 0; i < w->nreq; ++i) w->reqs[i].pre_yields = draw_small(12);
  if (draw(3) == 0) usim_fault_rate(USIM_F_CAS_WEAK, 100);
  {
    usim::np_scope np;
    char buf[400];
    int o = snprintf(buf, sizeof buf, "stop: reg=%d req=%d slots=[", w->nreg, w->nreq);
    for (int k = 0; k < w->nslots; ++k)
      o += snprintf(buf + o, sizeof buf - o, "%s{o%d b%d t%d %s y%d/%d}", k ? " " : "", w->slots[k].owner, w->slots[k].body,
                    w->slots[k].target, w->slots[k].cb_destroys ? "cbdel" : w->slots[k].owner_deregs ? "dereg" : "keep",
                    w->slots[k].pre_yields, w->slots[k].mid_yields);
    usim_sample("%s]", buf);
  }

  w->src.construct();
  w->tok = w->src->get_token();

  std::thread thr[kMaxReg + kMaxReq];
  int nt = 0;
  for (int i = 0; i < w->nreg; ++i) thr[nt++] = std::thread([w, i] { registrar(w, i); });
  for (int i = 0; i < w->nreq; ++i) thr[nt++] = std::thread([w, i] { requester(w, i); });
  for (int i = 0; i < nt; ++i) thr[i].join();

  // tear down what is left (callbacks whose destroyer never ran, kept registrations)
  for (int k = 0; k < w->nslots; ++k) {
    Slot& s = w->slots[k];
    if (s.box.alive()) destroy_slot(w, s);
  }
  {
    usim::np_scope np;
    history_checks(w);
  }
  w->src.destroy();  // ~inplace_stop_source asserts that no callback is left
  {
    usim::np_scope np;
    delete w;
  }
}

// ---------------------------------------------------------------------------
// Adapters: a third-party token (kit::sim_stop_token) and/or an inplace token feed
// inplace_stop_token_adapter / fused_stop_source; requests on any upstream must
// reach the downstream callbacks with the same guarantees.
struct AWorld {
  arena_box<kit::sim_stop_source> up_sim;
  arena_box<unifex::inplace_stop_source> up_inp;
  int mode = 0;  // 0 adapter<sim token>, 1 adapter_subscription<sim token>, 2 fused<inplace, sim>, 3 fused<inplace, inplace>
  arena_box<unifex::inplace_stop_source> up_inp2;
  arena_box<unifex::inplace_stop_token_adapter<kit::sim_stop_token>> adapter;
  arena_box<unifex::detail::inplace_stop_token_adapter_subscription<kit::sim_stop_token>> sub;
  arena_box<unifex::fused_stop_source<unifex::inplace_stop_token, kit::sim_stop_token>> fused;
  arena_box<unifex::fused_stop_source<unifex::inplace_stop_token, unifex::inplace_stop_token>> fused2;
  unifex::inplace_stop_token down;
  int ncb = 0;
  struct DS {
    int invoked = 0;
    bool running = false;
    uint64_t reg_end = 0, dereg_begin = 0, dereg_end = 0;
    int pre = 0, mid = 0;
    bool dereg = true;
  } ds[4];
  int nreq = 0;
  struct RQ { int which; int pre; uint64_t begin = 0, end = 0; } rq[3];
  uint64_t stop_visible = 0;
};
struct ABody {
  AWorld* w;
  int k;
  void operator()() noexcept {
    usim::np_scope np;
    auto& d = w->ds[k];
    KIT_CHECK(d.invoked == 0, "c03.cb-twice", "downstream callback %d invoked twice through adapter", k);
    KIT_CHECK(d.dereg_end == 0, "c03.cb-after-dereg", "downstream callback %d invoked after deregistration returned", k);
    d.invoked++;
    if (!w->stop_visible) w->stop_visible = seq();
  }
};

void body_adapter(void*) {
  AWorld* w;
  { usim::np_scope np; w = new AWorld(); }
  w->mode = draw(4);
  w->ncb = draw_range(1, 3);
  w->nreq = draw_range(1, 3);
  for (int k = 0; k < w->ncb; ++k) { w->ds[k].pre = draw_small(5); w->ds[k].mid = draw_small(5); w->ds[k].dereg = draw(3) != 0; }
  for (int i = 0; i < w->nreq; ++i) { w->rq[i].which = draw(2); w->rq[i].pre = draw_small(10); }
  bool pre_stopped = draw(6) == 0;
  if (draw(3) == 0) usim_fault_rate(USIM_F_CAS_WEAK, 100);
  usim_sample("adapter: mode=%d cbs=%d reqs=%d pre_stopped=%d", w->mode, w->ncb, w->nreq, (int)pre_stopped);

  w->up_sim.construct();
  w->up_inp.construct();
  w->up_inp2.construct();
  if (pre_stopped) { w->up_sim->request_stop(); w->stop_visible = seq(); }
  switch (w->mode) {
    case 0: w->adapter.construct(); w->down = w->adapter->subscribe(w->up_sim->get_token()); break;
    case 1: w->sub.construct(); w->down = w->sub->subscribe(w->up_sim->get_token()); break;
    case 2: w->fused.construct(); w->fused->register_callbacks(w->up_inp->get_token(), w->up_sim->get_token()); w->down = w->fused->get_token(); break;
    default: w->fused2.construct(); w->fused2->register_callbacks(w->up_inp->get_token(), w->up_inp2->get_token()); w->down = w->fused2->get_token(); break;
  }
  KIT_CHECK(w->down.stop_possible(), "c03.cb-missing", "adapted token reports stop impossible");
  if (pre_stopped) KIT_CHECK(w->down.stop_requested() || w->mode == 3, "c03.cb-missing", "upstream stop requested before subscription not visible downstream");

  using DCB = unifex::inplace_stop_callback<ABody>;
  std::thread thr[8];
  int nt = 0;
  arena_box<DCB> boxes[4];
  for (int k = 0; k < w->ncb; ++k)
    thr[nt++] = std::thread([w, k, &boxes] {
      auto& d = w->ds[k];
      yields(d.pre);
      boxes[k].construct(w->down, ABody{w, k});
      { usim::np_scope np; d.reg_end = seq(); }
      yields(d.mid);
      if (d.dereg) {
        { usim::np_scope np; d.dereg_begin = seq(); }
        boxes[k].destroy();
        { usim::np_scope np; d.dereg_end = seq(); }
      }
    });
  for (int i = 0; i < w->nreq; ++i)
    thr[nt++] = std::thread([w, i] {
      auto& r = w->rq[i];
      yields(r.pre);
      { usim::np_scope np; r.begin = seq(); }
      bool first;  // did this call make the transition on its upstream source?
      switch (w->mode) {
        case 0: case 1: first = w->up_sim->request_stop(); break;
        case 2: first = r.which ? w->up_sim->request_stop() : !w->up_inp->request_stop(); break;
        default: first = r.which ? !w->up_inp2->request_stop() : !w->up_inp->request_stop(); break;
      }
      { usim::np_scope np; r.end = seq(); if (!w->stop_visible) w->stop_visible = seq(); }
      // the call that made the transition has run the forwarding callback before returning
      if (first) KIT_CHECK(w->down.stop_requested(), "c03.stop-reverted", "downstream token not stopped after the first upstream request_stop() returned");
    });
  for (int i = 0; i < nt; ++i) thr[i].join();
  KIT_CHECK(w->down.stop_requested(), "c03.cb-missing", "downstream token not stopped after upstream requests");
  {
    usim::np_scope np;
    uint64_t Rb = 0, Re = 0;
    for (int i = 0; i < w->nreq; ++i) {
      if (!Rb || w->rq[i].begin < Rb) Rb = w->rq[i].begin;
      if (!Re || w->rq[i].end < Re) Re = w->rq[i].end;  // earliest return: stop has certainly been delivered by then?
    }
    uint64_t Rlast = 0;
    for (int i = 0; i < w->nreq; ++i) if (w->rq[i].end > Rlast) Rlast = w->rq[i].end;
    for (int k = 0; k < w->ncb; ++k) {
      auto& d = w->ds[k];
      KIT_CHECK(d.invoked <= 1, "c03.cb-twice", "downstream callback %d invoked %d times", k, d.invoked);
      if (pre_stopped && w->mode != 3) { KIT_CHECK(d.invoked == 1, "c03.cb-missing", "downstream callback %d registered after upstream stop never ran", k); continue; }
      // registered before any request began and deregistration began after every request returned
      if (d.reg_end < Rb && (d.dereg_begin == 0 || d.dereg_begin > Rlast))
        KIT_CHECK(d.invoked == 1, "c03.cb-missing", "downstream callback %d registered throughout an upstream stop request never ran", k);
      if (d.dereg_end && d.dereg_end < Rb)
        KIT_CHECK(d.invoked == 0, "c03.cb-spurious", "downstream callback %d ran although deregistered before any request", k);
    }
  }
  for (int k = 0; k < w->ncb; ++k) if (boxes[k].alive()) boxes[k].destroy();
  switch (w->mode) {
    case 0: w->adapter->unsubscribe(); w->adapter.destroy(); break;
    case 1: w->sub->unsubscribe(); w->sub.destroy(); break;
    case 2: w->fused->deregister_callbacks(); w->fused.destroy(); break;
    default: w->fused2->deregister_callbacks(); w->fused2.destroy(); break;
  }
  KIT_CHECK(w->up_sim->live_registrations() == 0, "c03.cb-after-dereg", "adapter left %d registration(s) on its upstream token after unsubscribe", w->up_sim->live_registrations());
  w->up_sim.destroy();
  w->up_inp.destroy();
  w->up_inp2.destroy();
  { usim::np_scope np; delete w; }
}

}  // namespace

int main(int argc, char** argv) {
  static const usim_workload table[] = {{"stop_basic", body_basic}, {"stop_adapter", body_adapter}};
  return usim_main(argc, argv, table, 2);
}
