// w_coro — C10 (coroutine tasks) and the coroutine part of C11 (completion context).
// A recursive task<long> interprets a seeded plan: awaits of scripted gates (value/error/
// done, completed inline or by a foreign opener thread), nested tasks, co_await schedule(ctx),
// at_coroutine_exit actions, tracked locals, try/catch, thrown exceptions; the root task is
// awaited as a sender by a stoppable receiver. C++20 configurations only. See DESIGN.md §8 C10/C11.
#include <kit/base.hpp>
#include <kit/gate.hpp>
#include <kit/recv.hpp>

#if __cplusplus >= 202002L
#include <unifex/at_coroutine_exit.hpp>
#include <unifex/just_done.hpp>
#include <unifex/on.hpp>
#include <unifex/scheduler_concepts.hpp>
#include <unifex/single_thread_context.hpp>
#include <unifex/task.hpp>
#define W_HAVE_CORO 1
#endif

using namespace kit;

namespace {

#ifdef W_HAVE_CORO
constexpr int kMaxTasks = 4;
constexpr int kMaxSteps = 5;
constexpr int kMaxGates = 8;
constexpr int kMaxExits = 3;

enum StepKind { ST_GATE, ST_TASK, ST_SCHEDULE, ST_THROW, ST_DONE, ST_OBJ, ST_AWAIT, ST_NTASK };  // ST_NTASK: await a nothrow_task<long> that awaits a gate (value or done only)  // ST_AWAIT: a plain awaitable (not a sender) whose await_suspend returns bool; arg: 0 does not suspend, 1 suspends and is resumed by a foreign thread (possibly before await_suspend returns)  // ST_OBJ: await a task<CVal>; arg=1: constructing its result throws

struct Step {
  int kind = ST_GATE;
  int arg = 0;       // gate index / child task / ctx
  bool guarded = false;  // wrapped in try/catch
};
struct TaskPlan {
  int nsteps = 0;
  Step steps[kMaxSteps];
  int nexits = 0;
  int exit_gate[kMaxExits] = {-1, -1, -1};  // an exit action may await a gate (completed inline or by a foreign thread)
};
struct task_error {
  long code;
};

struct ExitRec { int task, k; uint64_t seq; int tid; std::thread::id thread; };
struct LocalRec { int id; bool alive; uint64_t born, died; };
struct ResumeRec { int task, step; std::thread::id thread; int tid; int expect_ctx; uint64_t seq; };

struct CWorld {
  TaskPlan tasks[kMaxTasks];
  int ntasks = 1;
  Gate gates[kMaxGates];
  int ngates = 0;
  arena_box<unifex::single_thread_context> ctx[3];
  std::thread::id ctx_thread[3];
  hvec<ExitRec> exits;
  hvec<LocalRec> locals;
  hvec<ResumeRec> resumes;
  uint64_t task_end_seq[kMaxTasks];   // when the task body was left (for ordering exit actions / locals)
  int task_entered[kMaxTasks];
  OpRec rec;
  unifex::inplace_stop_source stop;
  int stop_mode = 0, stop_gate = 0, stop_yields = 0;
  volatile int finished = 0;
  int root_ctx = 1;
  int nbody_gates = 0;
  bool ntask_gate[kMaxGates] = {};  // awaited inside a nothrow_task: never an error (an exception there terminates by design)
  // raw-awaitable hand-off: a resumer thread resumes published coroutine handles
  std::coroutine_handle<> pending[8];
  volatile int npending = 0, nresumed = 0;
  int await_window = 0;
};
CWorld* g_w = nullptr;

struct HandoffAwaitable {
  CWorld* w;
  int mode;
  long v;
  bool await_ready() const noexcept { return false; }
  bool await_suspend(std::coroutine_handle<> h) noexcept {
    if (mode == 0) return false;  // resumes at once
    CWorld* ww = w;               // (this awaitable lives in the coroutine frame: once the handle is published the frame may run to completion and die)
    int window;
    { usim::np_scope np; window = ww->await_window; ww->pending[ww->npending] = h; ww->npending = ww->npending + 1; }
    yields(window);               // the resumer may resume the coroutine before await_suspend returns
    return true;
  }
  long await_resume() const noexcept { return v; }
};

// a tracked class-type task result: construction on live storage, destruction of storage that holds none
struct CValReg { hvec<const void*> live; };
CValReg* g_cvals = nullptr;
struct CVal {
  long id;
  bool throw_on_copy;
  void born() { usim::np_scope np; for (auto* p : g_cvals->live) if (p == this) usim_report("c02.construct-on-live", "a task result was constructed on storage that already holds one"); g_cvals->live.push_back(this); }
  explicit CVal(long i, bool t = false) : id(i), throw_on_copy(t) { born(); }
  CVal(const CVal& o) : id(o.id), throw_on_copy(false) {
    if (o.throw_on_copy) { usim_probe("task result construction threw"); throw task_error{o.id + 7000}; }
    born();
  }
  CVal(CVal&& o) noexcept : id(o.id), throw_on_copy(o.throw_on_copy) { born(); }
  ~CVal() {
    usim::np_scope np;
    for (size_t i = 0; i < g_cvals->live.size(); ++i)
      if (g_cvals->live[i] == this) { g_cvals->live.erase(g_cvals->live.begin() + (long)i); return; }
    usim_report("c02.destroy-unconstructed", "a task result (id field %ld) was destroyed in storage that holds no constructed object (destroyed twice, or never constructed)", id);
  }
};

struct Local {
  int id;
  explicit Local(int i) : id(i) {
    usim::np_scope np;
    g_w->locals.push_back(LocalRec{id, true, seq(), 0});
  }
  Local(const Local&) = delete;
  ~Local() {
    usim::np_scope np;
    for (auto& l : g_w->locals)
      if (l.id == id && l.alive) { l.alive = false; l.died = seq(); return; }
    usim_report("c10.done", "coroutine local %d destroyed twice or never constructed", id);
  }
};

using sched_t = decltype(std::declval<unifex::single_thread_context&>().get_scheduler());

void note_resume(CWorld* w, int task, int step, int expect_ctx) {
  usim::np_scope np;
  w->resumes.push_back(ResumeRec{task, step, std::this_thread::get_id(), usim_here(), expect_ctx, seq()});
}

unifex::task<CVal> obj_task(long id, bool throws) {
  CVal local(id, throws);
  co_return std::as_const(local);  // copy-constructs the task's result (may throw)
}

unifex::nothrow_task<long> ntask(CWorld* w, int gate) {
  Local l(900 + gate);
  long v = co_await gate_sender{&w->gates[gate]};
  co_return v + 1;
}

unifex::task<long> run_task(CWorld* w, int t, int ctx_now) {
  TaskPlan& p = w->tasks[t];
  { usim::np_scope np; w->task_entered[t]++; }
  Local l1(t * 10 + 1);
  note_resume(w, t, -1, ctx_now);
  for (int k = 0; k < p.nexits; ++k) {
    co_await unifex::at_coroutine_exit([w, t, k, ctx_now]() -> unifex::task<void> {
      {
        usim::np_scope np;
        w->exits.push_back(ExitRec{t, k, seq(), usim_here(), std::this_thread::get_id()});
      }
      int g = w->tasks[t].exit_gate[k];
      if (g >= 0) {
        (void)co_await gate_sender{&w->gates[g]};
        // the cleanup action inherited the registering task's scheduler: it resumes there, not where the gate was opened
        note_resume(w, t, 100 + k, ctx_now);
        usim_probe("exit action awaited a gate");
      }
      co_return;
    });
  }
  long acc = 1000 * (t + 1);
  Local l2(t * 10 + 2);
  for (int s = 0; s < p.nsteps; ++s) {
    Step& st = p.steps[s];
    auto one = [&]() -> unifex::task<long> {
      switch (st.kind) {
        case ST_GATE: {
          long v = co_await gate_sender{&w->gates[st.arg]};
          co_return v;
        }
        case ST_TASK: {
          long v = co_await run_task(w, st.arg, ctx_now);
          co_return v;
        }
        case ST_OBJ: {
          CVal v = co_await obj_task(300 + t * 10 + s, st.arg == 1);
          co_return v.id;
        }
        case ST_NTASK: {
          long v = co_await ntask(w, st.arg);
          co_return v;
        }
        case ST_AWAIT: {
          long v = co_await HandoffAwaitable{w, st.arg, 400 + t * 10 + s};
          co_return v;
        }
        case ST_THROW: throw task_error{7000 + t * 10 + s};
        case ST_DONE: co_await unifex::just_done(); co_return 0;
        default: co_return 0;
      }
    };
    if (st.kind == ST_SCHEDULE) {
      co_await unifex::schedule(w->ctx[st.arg]->get_scheduler());
      ctx_now = st.arg;
      note_resume(w, t, s, ctx_now);
      continue;
    }
    if (st.guarded) {
      long got = -1;
      bool caught = false;
      try {
        got = co_await one();
      } catch (const task_error& e) {
        caught = true; got = e.code % 100;
      } catch (const gate_error& e) {
        caught = true; got = e.code % 100;
      }
      (void)caught;
      acc += got;
    } else {
      acc += co_await one();
    }
    note_resume(w, t, s, ctx_now);
  }
  { usim::np_scope np; w->task_end_seq[t] = seq(); }
  co_return acc;
}

// ---- reference model: interpret the plan with what the gates delivered
struct MRes { int ch; long v; };
MRes model_task(CWorld* w, int t, int* ctx_now) {
  TaskPlan& p = w->tasks[t];
  long acc = 1000 * (t + 1);
  int entry_ctx = *ctx_now;
  for (int s = 0; s < p.nsteps; ++s) {
    Step& st = p.steps[s];
    MRes r{CH_VALUE, 0};
    switch (st.kind) {
      case ST_GATE: {
        Gate& g = w->gates[st.arg];
        if (g.delivered == CH_NONE) return MRes{CH_NONE, 0};  // never got there in the real run either
        r.ch = g.delivered;
        r.v = g.delivered == CH_ERROR ? g.payload : g.payload;
        break;
      }
      case ST_TASK: {
        int c = *ctx_now;
        r = model_task(w, st.arg, &c);  // a nested task restores its parent's scheduler on exit
        if (r.ch == CH_NONE) return r;
        break;
      }
      case ST_SCHEDULE: *ctx_now = st.arg; continue;
      case ST_THROW: r = MRes{CH_ERROR, 7000 + t * 10 + s}; break;
      case ST_OBJ: r = st.arg == 1 ? MRes{CH_ERROR, 7300 + t * 10 + s} : MRes{CH_VALUE, 300 + t * 10 + s}; break;
      case ST_AWAIT: r = MRes{CH_VALUE, 400 + t * 10 + s}; break;
      case ST_NTASK: {
        Gate& g = w->gates[st.arg];
        if (g.delivered == CH_NONE) return MRes{CH_NONE, 0};
        r.ch = g.delivered;
        r.v = g.payload + (g.delivered == CH_VALUE ? 1 : 0);
        break;
      }
      case ST_DONE: r = MRes{CH_DONE, 0}; break;
    }
    if (r.ch == CH_DONE) { *ctx_now = entry_ctx; return r; }  // done is not catchable: unwinds
    if (r.ch == CH_ERROR) {
      if (st.guarded) { acc += r.v % 100; continue; }
      *ctx_now = entry_ctx;
      return r;
    }
    acc += r.v;
  }
  *ctx_now = entry_ctx;
  return MRes{CH_VALUE, acc};
}

void body_coro(void*) {
  CWorld* w;
  { usim::np_scope np; g_cvals = new CValReg(); }
  { usim::np_scope np; w = new CWorld(); g_w = w; memset(w->task_end_seq, 0, sizeof w->task_end_seq); memset(w->task_entered, 0, sizeof w->task_entered); }
  // ---- plan: task 0 is the root; task i may await tasks > i (bounded nesting)
  w->ntasks = draw_range(1, kMaxTasks);
  for (int t = 0; t < w->ntasks; ++t) {
    TaskPlan& p = w->tasks[t];
    p.nsteps = draw_range(1, kMaxSteps);
    p.nexits = draw(kMaxExits + 1);
    for (int s = 0; s < p.nsteps; ++s) {
      Step& st = p.steps[s];
      int k = draw(10);
      if (k < 5 && w->ngates < kMaxGates) { st.kind = ST_GATE; st.arg = w->ngates++; }
      else if (k < 7 && t + 1 < w->ntasks) { st.kind = ST_TASK; st.arg = t + 1 + draw(w->ntasks - t - 1); }
      else if (k < 8) { st.kind = ST_SCHEDULE; st.arg = 1 + draw(2); }
      else if (k < 9) {
        int q = draw(8);
        st.kind = q == 0 ? ST_THROW : q == 1 ? ST_DONE : q < 4 ? ST_OBJ : q < 6 ? ST_AWAIT : ST_NTASK;
        if (st.kind == ST_NTASK) { if (w->ngates < kMaxGates) { st.arg = w->ngates++; w->ntask_gate[st.arg] = true; } else st.kind = ST_SCHEDULE, st.arg = 1 + draw(2); }
        if (st.kind == ST_OBJ) st.arg = draw(3) == 0;
        if (st.kind == ST_AWAIT) st.arg = draw(3) == 0 ? 0 : 1;
      }
      else if (w->ngates < kMaxGates) { st.kind = ST_GATE; st.arg = w->ngates++; }
      else { st.kind = ST_SCHEDULE; st.arg = 1 + draw(2); }
      st.guarded = draw(4) == 0;
    }
  }
  // each task is awaited at most once: drop repeated ST_TASK references
  {
    bool used[kMaxTasks] = {true, false, false, false};
    for (int t = 0; t < w->ntasks; ++t)
      for (int s = 0; s < w->tasks[t].nsteps; ++s) {
        Step& st = w->tasks[t].steps[s];
        if (st.kind == ST_TASK) { if (used[st.arg]) { st.kind = ST_SCHEDULE; st.arg = 1 + (s & 1); } else used[st.arg] = true; }
      }
  }
  w->nbody_gates = w->ngates;
  for (int t = 0; t < w->ntasks; ++t) {
    bool hops = false;
    for (int s = 0; s < w->tasks[t].nsteps; ++s) hops |= w->tasks[t].steps[s].kind == ST_SCHEDULE;
    for (int k = 0; k < w->tasks[t].nexits; ++k)
      if (!hops && w->ngates < kMaxGates && draw(3) == 0) w->tasks[t].exit_gate[k] = w->ngates++;
  }
  w->await_window = draw_small(8);
  for (int g = 0; g < w->ngates; ++g) {
    Gate& G = w->gates[g];
    G.id = g;
    int o = draw(8);
    G.outcome = o < 5 ? CH_VALUE : o < 7 ? CH_ERROR : CH_DONE;
    G.payload = 10 + g;
    G.mode = draw(3) == 0 ? 0 : 1;
    G.on_stop = draw(4) == 0 ? 0 : 1;
  }
  for (int g = w->nbody_gates; g < w->ngates; ++g) { w->gates[g].outcome = CH_VALUE; w->gates[g].on_stop = 0; }
  for (int g = 0; g < w->nbody_gates; ++g) if (w->ntask_gate[g] && w->gates[g].outcome == CH_ERROR) w->gates[g].outcome = CH_VALUE;  // gates awaited by exit actions always deliver a value
  w->root_ctx = 1 + draw(2);
  int sm = draw(8);
  w->stop_mode = sm < 5 ? 0 : sm < 6 ? 1 : 2;  // 0 none, 1 before start, 2 when gate `stop_gate` is armed
  w->stop_gate = w->nbody_gates ? draw(w->nbody_gates) : 0;
  if (!w->nbody_gates && w->stop_mode == 2) w->stop_mode = 0;
  w->stop_yields = draw_small(10);
  if (w->stop_mode == 2 && draw(2)) {
    // this gate is completed by nothing but a stop request: if the request on the awaiting receiver never
    // reaches the sender the task is currently awaiting, the run deadlocks (= c10.stop-not-delivered)
    Gate& G = w->gates[w->stop_gate];
    G.mode = 1; G.on_stop = 1; G.no_open = true;
  }
  if (draw(3) == 0) usim_fault_rate(USIM_F_CAS_WEAK, 100);
  if (draw(4) == 0) usim_fault_rate(USIM_F_COND_SPURIOUS, 100);
  {
    usim::np_scope np;
    char buf[700];
    int o = snprintf(buf, sizeof buf, "coro: root_ctx=%d stop=%d/g%d tasks=", w->root_ctx, w->stop_mode, w->stop_gate);
    for (int t = 0; t < w->ntasks && o < 640; ++t) {
      o += snprintf(buf + o, sizeof buf - o, "T%d[x%d:", t, w->tasks[t].nexits);
      for (int s = 0; s < w->tasks[t].nsteps; ++s) {
        Step& st = w->tasks[t].steps[s];
        const char* nm = st.kind == ST_GATE ? "g" : st.kind == ST_TASK ? "t" : st.kind == ST_SCHEDULE ? "s" : st.kind == ST_THROW ? "throw" : st.kind == ST_OBJ ? "obj" : st.kind == ST_AWAIT ? "await" : st.kind == ST_NTASK ? "ntask" : "done";
        o += snprintf(buf + o, sizeof buf - o, "%s%s%d%s", s ? "," : "", nm, st.arg, st.guarded ? "?" : "");
        if (st.kind == ST_GATE) o += snprintf(buf + o, sizeof buf - o, "(%s%s)", ch_name(w->gates[st.arg].outcome), w->gates[st.arg].mode ? "" : "!");
      }
      o += snprintf(buf + o, sizeof buf - o, "] ");
    }
    usim_sample("%s", buf);
  }
  for (int i = 1; i <= 2; ++i) { w->ctx[i].construct(); w->ctx_thread[i] = w->ctx[i]->get_thread_id(); }
  w->rec.what = "task";
  w->rec.oracle_double = "c01.double-signal";
  w->rec.stop = &w->stop;

  gate_opener opener{w->gates, kMaxGates, &w->finished, draw_small(6)};
  std::thread opener_thr([&opener] { opener.run(); });
  std::thread resumer([w] {
    for (;;) {
      struct P { CWorld* w; static int pred(void* p) { auto* w = ((P*)p)->w; return w->nresumed < w->npending || w->finished; } } p{w};
      usim_wait(&P::pred, &p);
      if (w->nresumed >= w->npending) return;
      std::coroutine_handle<> h;
      { usim::np_scope np; h = w->pending[w->nresumed]; w->nresumed = w->nresumed + 1; }
      usim_probe("raw awaitable resumed by a foreign thread");
      h.resume();
    }
  });
  std::thread stopper([w] {
    if (w->stop_mode != 2) return;
    struct P { CWorld* w; static int pred(void* p) { auto* w = ((P*)p)->w; return w->gates[w->stop_gate].armed || w->gates[w->stop_gate].claimed || w->rec.flag; } } p{w};
    usim_wait(&P::pred, &p);
    yields(w->stop_yields);
    w->rec.request_stop();
  });
  if (w->stop_mode == 1) w->rec.request_stop();
  {
    auto sched = w->ctx[w->root_ctx]->get_scheduler();
    auto snd = unifex::on(sched, run_task(w, 0, w->root_ctx));
    started_op<sched_t, decltype(snd)> op;
    op.start(&w->rec, sched, std::move(snd));
    w->rec.wait();
    stopper.join();
    w->finished = 1;
    opener_thr.join();
    resumer.join();
    op.destroy();  // destroys the coroutine frames still owned by the operation
  }
  for (int i = 1; i <= 2; ++i) w->ctx[i].destroy();
  // ---- history
  {
    usim::np_scope np;
    OpRec& r = w->rec;
    KIT_CHECK(r.completions == 1, "c01.lost-completion", "the task never completed");
    bool stopped = r.stop_begin != 0;
    if (w->task_entered[0]) {
      int c = w->root_ctx;
      MRes m = model_task(w, 0, &c);
      if (stopped && r.stop_begin < r.done_seq && r.channel == CH_DONE) {
        // after a stop request every cancellation-aware suspension (co_await schedule(), on()'s hop) may answer done
        usim_probe("done after a stop request");
      } else if (m.ch != CH_NONE) {
        if (m.ch == CH_VALUE) KIT_CHECK(r.channel == CH_VALUE && r.value == m.v, "c10.value", "task completed with %s %ld, the plan evaluates to value %ld", ch_name(r.channel), r.value, m.v);
        else if (m.ch == CH_ERROR) KIT_CHECK(r.channel == CH_ERROR, "c10.error", "an escaped exception must surface as set_error; the task completed with %s", ch_name(r.channel));
        else KIT_CHECK(r.channel == CH_DONE, "c10.done", "a done inside the task must unwind it and reach the awaiting receiver as done; it completed with %s", ch_name(r.channel));
      }
    } else {
      // on() may refuse to start the task when stop was requested first
      KIT_CHECK(stopped && r.channel == CH_DONE, "c10.done", "the task body never ran but the receiver got %s", ch_name(r.channel));
    }
    // exit actions: exactly once each per entered task, in reverse registration order, after the body was left and before completion
    for (int t = 0; t < w->ntasks; ++t) {
      int n = 0;
      int lastk = 1 << 30;
      for (auto& e : w->exits) {
        if (e.task != t) continue;
        ++n;
        KIT_CHECK(e.k < lastk, "c10.cleanup-order", "task %d: exit action %d ran after exit action %d (must be reverse registration order)", t, e.k, lastk);
        lastk = e.k;
        KIT_CHECK(e.seq < r.done_seq, "c10.cleanup-late", "task %d: exit action %d ran after the awaiting receiver was completed", t, e.k);
      }
      // actions registered before the body was abandoned: a task that was entered registers all of them first
      if (w->task_entered[t]) KIT_CHECK(n == w->tasks[t].nexits, "c10.cleanup-count", "task %d registered %d exit actions but %d ran", t, w->tasks[t].nexits, n);
      else KIT_CHECK(n == 0, "c10.cleanup-count", "task %d never ran but %d exit actions did", t, n);
      KIT_CHECK(w->task_entered[t] <= 1, "c10.frame", "task %d body entered %d times", t, w->task_entered[t]);
      if (n) usim_probe("exit actions ran");
    }
    // locals: all destroyed, and before the awaiting receiver was completed
    for (auto& l : w->locals) {
      KIT_CHECK(!l.alive, "c10.done", "coroutine local %d was never destroyed (frame leaked or unwind skipped it)", l.id);
      // (On the done path unifex destroys the locals with the frame, i.e. when the awaiting operation state
      // is destroyed, which may be after the receiver was completed; the property only requires that they are.)
      if (l.died < r.done_seq) usim_probe("local destroyed before completion");
    }
    // C11: after every co_await the coroutine runs on its current scheduler's thread
    for (auto& rs : w->resumes)
      KIT_CHECK(rs.thread == w->ctx_thread[rs.expect_ctx], "c11.task-context", "task %d resumed after step %d on T%d, not on the thread of its scheduler (ctx %d)", rs.task, rs.step, rs.tid, rs.expect_ctx);
    if (r.completions && w->task_entered[0])
      KIT_CHECK(r.done_thread == w->ctx_thread[w->root_ctx], "c11.task-context", "the task completed on T%d, not on its scheduler's thread (ctx %d)", r.done_tid, w->root_ctx);
    // a stop request reaches the sender currently awaited (the task forwards it through its scheduler, so
    // delivery is asynchronous: decided by liveness, see no_open above)
    if (w->stop_mode == 2 && w->gates[w->stop_gate].no_open && w->gates[w->stop_gate].started) {
      KIT_CHECK(w->gates[w->stop_gate].delivered == CH_DONE && w->gates[w->stop_gate].stop_at_completion, "c10.stop-not-delivered", "the awaited gate completed without the stop request");
      usim_probe("stop reached the awaited sender");
    }
    if (r.channel == CH_DONE) usim_probe("task done");
    if (r.channel == CH_ERROR) usim_probe("task error");
    if (r.channel == CH_VALUE) usim_probe("task value");
    KIT_CHECK(g_cvals->live.empty(), "c02.leak-object", "%zu class-type task result(s) were never destroyed", g_cvals->live.size());
    delete g_cvals;
    g_cvals = nullptr;
    delete w;
    g_w = nullptr;
  }
}
#else
void body_coro(void*) {}
#endif

}  // namespace

int main(int argc, char** argv) {
  static const usim_workload table[] = {{"coro", body_coro}};
  return usim_main(argc, argv, table, 1);
}
