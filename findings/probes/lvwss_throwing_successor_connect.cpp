// native probe: connecting let_value_with_stop_source whose successor's connect() throws
#include <unifex/let_value_with_stop_source.hpp>
#include <unifex/just.hpp>
#include <cstdio>
#include <stdexcept>
using namespace unifex;
struct throwing_sender {
  template <template <class...> class V, template <class...> class T> using value_types = V<T<>>;
  template <template <class...> class V> using error_types = V<std::exception_ptr>;
  static constexpr bool sends_done = false;
  struct op { void start() noexcept {} };
  template <class R> op connect(R&&) const { throw std::runtime_error("connect failed"); }
};
struct rcv {
  void set_value() && noexcept {}
  void set_error(std::exception_ptr) && noexcept {}
  void set_done() && noexcept {}
};
int main() {
  try {
    auto op = connect(let_value_with_stop_source([](auto&) noexcept { return throwing_sender{}; }), rcv{});
    (void)op;
    printf("connected?!\n");
    return 1;
  } catch (const std::runtime_error& e) {
    printf("exception propagated out of connect: %s\n", e.what());
    return 0;
  }
}
