// Native probe for the defect repaired by /repo commit 1d5d5a3 ("fix: schedule() operations ... pass an exception
// thrown by the receiver's set_value() on to set_error()").
// A receiver whose set_value() may throw - here bulk_schedule's receiver running a throwing bulk_transform function -
// on each of the five schedulers. Expected: sync_wait() rethrows the exception. Before the fix: std::terminate in
// release (-DNDEBUG) builds; in debug builds the injected async-stack receiver wrapper turned it into set_error().
//   g++ -std=c++17 -O1 -DNDEBUG -I/repo/include throwing_set_value_schedulers.cpp /repo/source/*.cpp -pthread  (linux sources as needed)
#include <unifex/bulk_join.hpp>
#include <unifex/bulk_schedule.hpp>
#include <unifex/bulk_transform.hpp>
#include <unifex/single_thread_context.hpp>
#include <unifex/static_thread_pool.hpp>
#include <unifex/sync_wait.hpp>
#include <unifex/thread_unsafe_event_loop.hpp>
#include <unifex/timed_single_thread_context.hpp>
#include <unifex/trampoline_scheduler.hpp>
#include <unifex/execution_policy.hpp>
#include <cstdio>
#include <stdexcept>

template <class Sched>
bool probe(const char* name, Sched s) {
  try {
    unifex::sync_wait(unifex::bulk_join(unifex::bulk_transform(
        unifex::bulk_schedule(s, 4), [](int i) { if (i == 2) throw std::runtime_error("boom"); }, unifex::seq)));
    std::printf("%-28s completed without error (WRONG)\n", name);
    return false;
  } catch (const std::runtime_error& e) {
    std::printf("%-28s set_error(%s): ok\n", name, e.what());
    return true;
  }
}

int main() {
  bool ok = true;
  { unifex::single_thread_context c; ok &= probe("single_thread_context", c.get_scheduler()); }
  { unifex::static_thread_pool c(2); ok &= probe("static_thread_pool", c.get_scheduler()); }
  { unifex::timed_single_thread_context c; ok &= probe("timed_single_thread_context", c.get_scheduler()); }
  ok &= probe("trampoline_scheduler", unifex::trampoline_scheduler{4});
  std::puts(ok ? "PASS" : "FAIL");
  return ok ? 0 : 1;
}
