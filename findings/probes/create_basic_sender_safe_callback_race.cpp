// native (no simulator) probe for the create_basic_sender safe-callback race:
// a safe callback that has locked its weak_ptr but not yet taken the operation's lock when another
// callback completes (and the receiver destroys) the operation goes on to use the destroyed state.
// Build with -fsanitize=address; the user-provided lock factory only *delays* thread A, it is not part of the bug.
#include <unifex/create_basic_sender.hpp>
#include <atomic>
#include <chrono>
#include <cstdio>
#include <functional>
#include <mutex>
#include <thread>
using namespace unifex;
using namespace std::chrono_literals;

static std::mutex g_mtx;
static thread_local bool t_slow = false;
static std::atomic<bool> g_completed{false};

struct Rcvr {
  void** opslot;
  void (*del)(void*);
  void set_value(int v) && noexcept { printf("receiver: value %d; destroying the operation state\n", v); del(*opslot); g_completed = true; }
  void set_error(std::exception_ptr) && noexcept { del(*opslot); g_completed = true; }
  void set_done() && noexcept { del(*opslot); g_completed = true; }
};

int main() {
  std::function<void(int)> cbA, cbB;
  auto snd = create_basic_sender<int>(
      [&](auto event, auto& op, auto&&... args) noexcept {
        if constexpr (event.is_start) {
          cbA = safe_callback<int>(op);
          cbB = safe_callback<int>(op);
        } else if constexpr (event.is_callback) {
          op.set_value(args...);
        }
      },
      []() noexcept { return std::tuple{}; },
      []() noexcept {
        if (t_slow) std::this_thread::sleep_for(300ms);  // thread A is slow to reach the lock
        return std::lock_guard{g_mtx};
      });
  void* slot = nullptr;
  using Op = connect_result_t<decltype(snd), Rcvr>;
  Op* op = new Op(connect(std::move(snd), Rcvr{&slot, [](void* p) { delete (Op*)p; }}));
  slot = op;
  start(*op);
  std::thread a([&] { t_slow = true; cbA(1); });
  std::this_thread::sleep_for(100ms);
  cbB(2);  // completes and destroys the operation while A is between weak_ptr::lock() and the lock
  a.join();
  printf("no sanitizer report: the late callback did not touch the destroyed operation\n");
  return 0;
}
