// native probe: the blocking() CPO asked of let_done / done_as_optional (before the fix: infinite recursion, SIGSEGV)
// and of let_value / let_error / sequence / finally / via / on (before the fix: does not compile; build with -DALSO_ILL_FORMED).
#include <unifex/blocking.hpp>
#include <unifex/done_as_optional.hpp>
#include <unifex/finally.hpp>
#include <unifex/inline_scheduler.hpp>
#include <unifex/just.hpp>
#include <unifex/just_done.hpp>
#include <unifex/let_done.hpp>
#include <unifex/let_error.hpp>
#include <unifex/let_value.hpp>
#include <unifex/on.hpp>
#include <unifex/sequence.hpp>
#include <unifex/via.hpp>
#include <cstdio>
using namespace unifex;
int main() {
  auto ld = let_done(just(), [] { return just(); });
  printf("blocking(let_done(just, ...)) = %d\n", (int)blocking(ld).value);
  printf("blocking(done_as_optional(just(1))) = %d\n", (int)blocking(done_as_optional(just(1))).value);
#ifdef ALSO_ILL_FORMED
  printf("blocking(let_value) = %d\n", (int)blocking(let_value(just(1), [](int&) { return just(); })).value);
  printf("blocking(let_error) = %d\n", (int)blocking(let_error(just(1), [](auto&&) { return just(1); })).value);
  printf("blocking(sequence) = %d\n", (int)blocking(sequence(just(), just())).value);
  printf("blocking(finally) = %d\n", (int)blocking(finally(just(1), just())).value);
  printf("blocking(via) = %d\n", (int)blocking(via(just(1), inline_scheduler{})).value);
  printf("blocking(on) = %d\n", (int)blocking(on(inline_scheduler{}, just(1))).value);
#endif
  return 0;
}
