// native probe: when_any must deliver the result of the FIRST sender to complete, "even if done or error" (doc/api_reference.md)
#include <unifex/when_any.hpp>
#include <unifex/just.hpp>
#include <unifex/sync_wait.hpp>
#include <cstdio>
#include <stdexcept>
using namespace unifex;
// an int-sender that completes inline with done (K=0) or with an error (K=1)
template <int K>
struct fixed {
  template <template <class...> class V, template <class...> class T> using value_types = V<T<int>>;
  template <template <class...> class V> using error_types = V<std::exception_ptr>;
  static constexpr bool sends_done = true;
  template <class R> struct op { R r; void start() noexcept { if (K == 0) set_done(std::move(r)); else set_error(std::move(r), std::make_exception_ptr(std::runtime_error("first"))); } };
  template <class R> op<remove_cvref_t<R>> connect(R&& r) const { return {(R &&) r}; }
};
int main() {
  int bad = 0;
  {
    auto r = sync_wait(when_any(fixed<0>{}, just(41)));
    printf("when_any(done-first, just(41)) -> %s\n", r ? "value 41  [WRONG: the first completion was done]" : "done");
    if (r) ++bad;
  }
  try {
    auto r = sync_wait(when_any(fixed<1>{}, just(41)));
    printf("when_any(error-first, just(41)) -> %s\n", r ? "value 41  [WRONG: the first completion was an error]" : "done [WRONG]");
    ++bad;
  } catch (const std::runtime_error& e) { printf("when_any(error-first, just(41)) -> error '%s'\n", e.what()); }
  return bad ? 1 : 0;
}
