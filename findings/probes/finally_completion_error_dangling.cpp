// native probe: finally(source completes with a value, completion sender completes with an error that lives in ITS operation state)
#include <unifex/finally.hpp>
#include <unifex/just.hpp>
#include <unifex/just_error.hpp>
#include <cstdio>
#include <string>
using namespace unifex;
static std::string got;
struct rcv {
  void set_value(int) && noexcept { got = "value"; }
  void set_error(std::string e) && noexcept { got = "error:" + e; }
  void set_error(std::exception_ptr) && noexcept { got = "exception"; }
  void set_done() && noexcept { got = "done"; }
};
int main() {
  // a long string: the error owns heap memory inside just_error's operation state
  std::string msg(64, 'x');
  auto op = connect(finally(just(1), just_error(msg)), rcv{});
  start(op);
  printf("finally(just(1), just_error(<64 x>)) -> %.20s... (%zu chars)\n", got.c_str(), got.size());
  return got == "error:" + msg ? 0 : 1;
}
