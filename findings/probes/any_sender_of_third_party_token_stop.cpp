// native probe (ASan): any_sender_of<> connected to a receiver with a std::stop_token. The wrapped operation answers a
// stop request by completing with done from inside its stop callback, and the receiver destroys the operation in its
// completion (both legal). request_stop() of the inplace_stop_source that lives inside the type-erased operation
// (inplace_stop_token_adapter) is still on the stack and goes on to lock() the destroyed source.
#include <unifex/any_sender_of.hpp>
#include <unifex/get_stop_token.hpp>
#include <unifex/manual_lifetime.hpp>
#include <cstdio>
#include <stop_token>
using namespace unifex;

// std::stop_token dressed as a unifex stop token (callback_type alias)
struct std_token;
template <class F>
struct std_cb {
  std::stop_callback<F> cb;
  template <class T>
  std_cb(std_token t, T&& f);
};
struct std_token {
  std::stop_token t;
  template <class F> using callback_type = std_cb<F>;
  bool stop_requested() const noexcept { return t.stop_requested(); }
  bool stop_possible() const noexcept { return t.stop_possible(); }
};
template <class F>
template <class T>
std_cb<F>::std_cb(std_token t, T&& f) : cb(t.t, (T &&) f) {}

struct stoppable_sender {
  template <template <class...> class V, template <class...> class T> using value_types = V<T<>>;
  template <template <class...> class V> using error_types = V<std::exception_ptr>;
  static constexpr bool sends_done = true;
  template <class R>
  struct op {
    struct cb { op* self; void operator()() noexcept { self->on_stop(); } };
    using cb_t = typename stop_token_type_t<R&>::template callback_type<cb>;
    R r;
    manual_lifetime<cb_t> callback;
    void start() noexcept { callback.construct(get_stop_token(r), cb{this}); }
    void on_stop() noexcept { callback.destruct(); unifex::set_done(std::move(r)); }
  };
  template <class R> op<remove_cvref_t<R>> connect(R&& r) const { return op<remove_cvref_t<R>>{(R &&) r, {}}; }
};

static void* g_op; static void (*g_del)(void*);
struct rcv {
  std_token tok;
  void set_value() && noexcept {}
  void set_error(std::exception_ptr) && noexcept {}
  void set_done() && noexcept { printf("receiver: done; destroying the operation state\n"); g_del(g_op); }
  friend std_token tag_invoke(tag_t<get_stop_token>, const rcv& r) noexcept { return r.tok; }
};

int main() {
  std::stop_source ss;
  using Op = connect_result_t<any_sender_of<>, rcv>;
  Op* op = new Op(connect(any_sender_of<>(stoppable_sender{}), rcv{std_token{ss.get_token()}}));
  g_op = op; g_del = [](void* p) { delete (Op*)p; };
  start(*op);
  ss.request_stop();
  printf("no sanitizer report\n");
  return 0;
}
