// native (real kernel) probe: a read whose stop is requested before start, on a pipe that has data
#include <unifex/linux/io_uring_context.hpp>
#include <unifex/file_concepts.hpp>
#include <unifex/sync_wait.hpp>
#include <unifex/with_query_value.hpp>
#include <unifex/let_done.hpp>
#include <unifex/just.hpp>
#include <unifex/then.hpp>
#include <unifex/inplace_stop_token.hpp>
#include <thread>
#include <cstdio>
#include <fcntl.h>
#include <unistd.h>
using namespace unifex;
int main(int argc, char**) {
  linuxos::io_uring_context ctx;
  inplace_stop_source runStop;
  std::thread t([&] { ctx.run(runStop.get_token()); });
  auto s = ctx.get_scheduler();
  int fds[2];
  if (pipe2(fds, O_CLOEXEC)) return 2;
  char path[64]; snprintf(path, sizeof path, "/proc/self/fd/%d", fds[0]);
  auto rd = open_file_read_only(s, path);
  if (argc < 2) (void)!write(fds[1], "hello", 5);
  char buf[8] = {0};
  inplace_stop_source stop;
  stop.request_stop();
  auto r = sync_wait(let_done(
      then(with_query_value(async_read_some_at(rd, 0, as_writable_bytes(span{buf, 5})), get_stop_token, stop.get_token()),
           [](ssize_t n) { return (long)n; }),
      [] { return just(-1L); }));
  printf("result=%ld buffer=\"%s\"\n", r ? *r : -2L, buf);
  char rest[8] = {0};
  int fl = fcntl(fds[0], F_GETFL); fcntl(fds[0], F_SETFL, fl | O_NONBLOCK);
  ssize_t n = read(fds[0], rest, 5);
  printf("bytes still in pipe: %zd\n", n);
  runStop.request_stop();
  t.join();
  return 0;
}
