#include <unifex/for_each.hpp>
#include <unifex/range_stream.hpp>
#include <unifex/reduce_stream.hpp>
#include <unifex/sync_wait.hpp>
#include <unifex/type_erased_stream.hpp>
#include <cstdio>
using namespace unifex;
int main() {
  int n = 0;
  sync_wait(for_each(type_erase<int>(range_stream{0, 0}), [&](int) { ++n; }));
  printf("for_each(type_erase(empty range)): %d elements\n", n);
  auto r = sync_wait(reduce_stream(type_erase<int>(range_stream{0, 3}), 0, [](int a, int v) { return a + v; }));
  printf("reduce(type_erase(range 0..3)) = %d\n", r ? *r : -1);
  return 0;
}
