#!/usr/bin/env python3
"""Runs the registered checks against the seeded defects kept under /verif/seeded/<id>/.

  selftest/run_seeded.py [id ...] [--tier quick|thorough] [--patch FILE --prop Cnn]

Each patch.diff is applied to a scratch copy of /repo's include/ and source/
(under /tmp, removed afterwards) and the property's check is run with
VERIF_REPO pointing at the copy. /repo itself is never modified.
"""
import json, os, shutil, subprocess, sys, time
VERIF = os.path.dirname(os.path.dirname(os.path.abspath(__file__)))

def run_one(name, patch, props, tier):
    scratch = "/tmp/verif_seed_%s_%d" % (name, os.getpid())
    shutil.rmtree(scratch, ignore_errors=True)
    os.makedirs(scratch)
    out = []
    try:
        for d in ("include", "source"):
            shutil.copytree(os.path.join("/repo", d), os.path.join(scratch, d))
        p = subprocess.run(["patch", "-p1", "-s", "-i", patch], cwd=scratch, stdout=subprocess.PIPE, stderr=subprocess.STDOUT, text=True)
        if p.returncode != 0:
            print("%s: patch does not apply: %s" % (name, p.stdout))
            return [dict(seeded=name, status="patch-failed")]
        for pid in props:
            t0 = time.time()
            r = subprocess.run([os.path.join(VERIF, "bin/vcheck"), pid, "--tier", tier], cwd=VERIF, env=dict(os.environ, VERIF_REPO=scratch),
                               stdout=subprocess.PIPE, stderr=subprocess.STDOUT, text=True)
            viol = [l for l in r.stdout.splitlines() if l.startswith("VIOLATION") or l.startswith("  oracle=")]
            status = "detected" if r.returncode == 1 else "MISSED" if r.returncode == 0 else "error rc=%d" % r.returncode
            print("%s vs %s: %s (%.0fs)" % (name, pid, status, time.time() - t0))
            for l in viol[:6]:
                print("    " + l[:260])
            if r.returncode not in (0, 1):
                print(r.stdout[-2000:])
            out.append(dict(seeded=name, property=pid, status=status, oracles=sorted({l.split()[0].split("=", 1)[1] for l in viol if l.startswith("  oracle=")})))
    finally:
        shutil.rmtree(scratch, ignore_errors=True)
    return out

def main(argv):
    tier = "quick"
    if "--tier" in argv:
        i = argv.index("--tier"); tier = argv[i + 1]; del argv[i:i + 2]
    if "--patch" in argv:
        i = argv.index("--patch"); patch = argv[i + 1]; del argv[i:i + 2]
        i = argv.index("--prop"); prop = argv[i + 1]; del argv[i:i + 2]
        run_one("adhoc", os.path.abspath(patch), [prop], tier)
        return 0
    root = os.path.join(VERIF, "seeded")
    names = argv or sorted(os.listdir(root))
    res = []
    for n in names:
        d = os.path.join(root, n)
        meta = json.load(open(os.path.join(d, "meta.json")))
        res += run_one(n, os.path.join(d, "patch.diff"), meta.get("check_with", [meta["property"]]), tier)
    json.dump(res, open(os.path.join(VERIF, "selftest", "seeded_last.json"), "w"), indent=1)
    return 0

if __name__ == "__main__":
    sys.exit(main(sys.argv[1:]))
