#!/usr/bin/env python3
"""Sensitivity self-test: scripted source mutations applied to a scratch copy of
/repo (include/ + source/ only, under /tmp, removed afterwards); each must make
the named check report a violation within its quick budget.

  selftest/mutants.py [--only id,id] [--prop Cnn] [--list]

Results are appended to selftest/mutants_last.json (documentation, not evidence).
"""
import json
import os
import shutil
import subprocess
import sys
import time

VERIF = os.path.dirname(os.path.dirname(os.path.abspath(__file__)))
REPO = "/repo"

# id, property, file, old, new, note
M = [
    ("m06", "C03", "source/inplace_stop_token.cpp",
     "    callback->prevPtr_ = nullptr;\n    callbacks_ = callback->next_;",
     "    callbacks_ = callback->next_;",
     "request_stop: prevPtr_ no longer cleared when a callback is popped"),
    ("m07", "C03", "source/inplace_stop_token.cpp",
     "      while (!callback->callbackCompleted_.load(std::memory_order_acquire)) {\n        spin.wait();\n      }",
     "      (void)spin;",
     "remove_callback: no wait for a callback running on another thread"),
    ("m08", "C03", "source/inplace_stop_token.cpp",
     "  if (!try_lock_unless_stop_requested(true)) {\n    return true;\n  }",
     "  if (!try_lock_unless_stop_requested(true)) {\n    return false;\n  }",
     "request_stop: non-first caller also reports being first"),
    ("m09", "C06", "source/manual_event_loop.cpp",
     "  if (wasEmpty) {\n    cv_.notify_one();\n  }",
     "  (void)wasEmpty;",
     "manual_event_loop::enqueue never notifies"),
    ("m10", "C06", "source/manual_event_loop.cpp",
     "    while (head_ == nullptr) {\n      if (stop_)\n        return;\n      cv_.wait(lock);\n    }",
     "    if (stop_)\n      return;\n    while (head_ == nullptr) {\n      if (stop_)\n        return;\n      cv_.wait(lock);\n    }",
     "manual_event_loop::run tests stop_ before the queue (returns with items queued)"),
    ("m11", "C06", "source/static_thread_pool.cpp",
     "  while (queue_.empty()) {\n    if (stopRequested_) {\n      return nullptr;\n    }\n    cv_.wait(lk);\n  }",
     "  while (queue_.empty() || stopRequested_) {\n    if (stopRequested_) {\n      return nullptr;\n    }\n    cv_.wait(lk);\n  }",
     "static_thread_pool::pop returns nullptr on stop even if the queue is non-empty"),
    ("m15", "C06", "include/unifex/trampoline_scheduler.hpp",
     "currentState->recursionDepth_ < maxRecursionDepth_",
     "currentState->recursionDepth_ <= maxRecursionDepth_",
     "trampoline depth test off by one"),
    ("m12", "C07", "source/timed_single_thread_context.cpp",
     "           queuedTask->next_->dueTime_ <= task->dueTime_) {",
     "           queuedTask->next_->dueTime_ < task->dueTime_) {",
     "timed context: equal due times no longer keep submission order"),
    ("m13", "C07", "source/timed_single_thread_context.cpp",
     "      if (nextDueTime <= now) {",
     "      if (nextDueTime <= now + std::chrono::milliseconds(1)) {",
     "timed context fires up to 1 ms early"),
    ("m14", "C07", "source/timed_single_thread_context.cpp",
     "    head_ = task;\n\n    // New minimum due-time has changed, wake the thread.\n    cv_.notify_one();",
     "    head_ = task;",
     "timed context: no wake-up when a new earliest timer is queued"),
    ("m21", "C15", "source/async_mutex_v2.cpp",
     "    if (queue_.empty()) {\n      return;\n    }",
     "    return;",
     "v2 mutex: no re-check of the queue after releasing the lock (Dekker half removed)"),
    # m22 (remove op->mutex_.unlock() in resume_'s else-branch) is an equivalent mutant: the branch is unreachable
    # (a waiter completed by stop() was either never enqueued or removed by try_remove, so it is never popped).
    ("m23", "C15", "source/async_mutex_v1.cpp",
     "  waiter_base* item = pendingQueue_.pop_front();\n  item->resume_(item);",
     "  waiter_base* item = pendingQueue_.pop_front();\n  waiter_base* second = pendingQueue_.empty() ? nullptr : pendingQueue_.pop_front();\n  item->resume_(item);\n  if (second) second->resume_(second);",
     "v1 mutex: unlock() resumes two waiters"),
    ("m24", "C16", "source/async_manual_reset_event_v1.cpp",
     "  while (op != nullptr) {\n    std::exchange(op, op->next_)->set_value();\n  }",
     "  if (op != nullptr) {\n    std::exchange(op, op->next_)->set_value();\n  }",
     "v1 event: set() resumes only the first waiter"),
    ("m25", "C16", "source/atomic_intrusive_list.cpp",
     "  second->self.store(&head_, std::memory_order_release);\n  first->self.store(nullptr, std::memory_order_relaxed);\n\n  unlock(head_, rest_val);\n  unlock(first->rest, 0);\n  return first;",
     "  second->self.store(&head_, std::memory_order_release);\n\n  unlock(head_, rest_val);\n  unlock(first->rest, 0);\n  return first;",
     "atomic_intrusive_list::pop_front forgets to clear the popped node's self link"),
    ("m26", "C16", "source/async_manual_reset_event_v2.cpp",
     "  while (auto* w = local.pop_front()) {\n    w->resume_(w);\n  }",
     "  if (auto* w = local.pop_front()) {\n    w->resume_(w);\n  }",
     "v2 event: set() resumes only the first drained waiter"),
    # ---- io_uring_context (C14 / C07 over the ring model)
    ("m30", "C14", "include/unifex/linux/io_uring_context.hpp",
     "    static void on_read_complete(operation_base* op) noexcept {\n      auto& self = *static_cast<operation*>(op);\n      if (self.refCount_.fetch_sub(1, std::memory_order_acq_rel) != 1) {\n        // stop callback is running, must complete the op\n        return;\n      }\n      self.stopCallback_.destruct();\n      // A transfer that has already happened is reported as such even if stop\n      // was requested meanwhile; otherwise the bytes would be silently lost.\n      if (self.result_ < 0 &&\n          get_stop_token(self.receiver_).stop_requested()) {",
     "    static void on_read_complete(operation_base* op) noexcept {\n      auto& self = *static_cast<operation*>(op);\n      if (self.refCount_.fetch_sub(1, std::memory_order_acq_rel) != 1) {\n        // stop callback is running, must complete the op\n        return;\n      }\n      self.stopCallback_.destruct();\n      if (get_stop_token(self.receiver_).stop_requested()) {",
     "io_uring read: done reported although bytes were transferred (reverts fix 56373d1 for reads)"),
    ("m31", "C14", "source/linux/io_uring_context.cpp",
     "        // Skip processing this item and let the loop check\n        // for the remote-queued items next time around.\n        remoteQueueReadSubmitted_ = false;",
     "        // Skip processing this item and let the loop check\n        // for the remote-queued items next time around.",
     "io_uring: remoteQueueReadSubmitted_ never cleared after the eventfd poll completes (remote work lost)"),
    ("m33", "C07", "source/linux/io_uring_context.cpp",
     "    while (!timers_.empty() && timers_.top()->dueTime_ <= now) {\n      schedule_at_operation* item = timers_.pop();\n\n      LOGX(\"dequeued elapsed timer %p\\n\", (void*)item);\n\n      if (item->canBeCancelled_) {\n        auto oldState = item->state_.fetch_add(\n            schedule_at_operation::timer_elapsed_flag,",
     "    while (!timers_.empty() && timers_.top()->dueTime_ <= now + std::chrono::milliseconds(1)) {\n      schedule_at_operation* item = timers_.pop();\n\n      LOGX(\"dequeued elapsed timer %p\\n\", (void*)item);\n\n      if (item->canBeCancelled_) {\n        auto oldState = item->state_.fetch_add(\n            schedule_at_operation::timer_elapsed_flag,",
     "io_uring timers reaped up to 1 ms early"),
    ("m34", "C14", "include/unifex/linux/io_uring_context.hpp",
     "    void request_stop() noexcept {\n      if (char expected = 1; !refCount_.compare_exchange_strong(\n              expected, 2, std::memory_order_relaxed)) {\n        // lost race with on_read_complete",
     "    void request_stop() noexcept {\n      if (char expected = 1; !refCount_.compare_exchange_strong(\n              expected, 1, std::memory_order_relaxed)) {\n        // lost race with on_read_complete",
     "io_uring read: cancel does not take its reference (read CQE and cancel CQE both complete the op)"),
    ("m35", "C14", "source/linux/mmap_region.cpp",
     "  if (size_ > 0) {\n    ::munmap(ptr_, size_);\n  }",
     "  if (size_ > 4096) {\n    ::munmap(ptr_, size_);\n  }",
     "mmap_region: small mappings are never unmapped"),
    ("m36", "C14", "include/unifex/linux/io_uring_context.hpp",
     "        sqe.opcode = IORING_OP_READV;\n        sqe.fd = fd_;\n        sqe.off = offset_;",
     "        sqe.opcode = IORING_OP_READV;\n        sqe.fd = fd_;\n        sqe.off = 0;",
     "io_uring read_some_at ignores the offset"),
    # ---- v0 scope / spawn under faults
    ("m40", "C08", "include/unifex/v0/async_scope.hpp",
     "      // we've been stopped so clean up and bail out\n      opToStart->destruct();",
     "      // we've been stopped so clean up and bail out",
     "v0 scope: operation of refused work connected but never destructed"),
    ("m41", "C08", "include/unifex/v0/async_scope.hpp",
     "    if (is_stopping(oldState) && op_count(oldState) == 1) {",
     "    if (op_count(oldState) == 1) {",
     "v0 scope: last finished operation sets the event even if the scope is not stopping (join completes early later)"),
    # ---- round 2: traits / async_trace / streams / when_any
    ("m50", "C20", "include/unifex/then.hpp",
     "  tag_invoke(tag_t<visit_continuations>, const type& r, Visit&& visit) {\n    std::invoke(visit, r.receiver_);",
     "  tag_invoke(tag_t<visit_continuations>, const type& r, Visit&& visit) {\n    (void)r; (void)visit;",
     "then's receiver no longer reports its continuation (async_trace chain broken)"),
    ("m51", "C05", "include/unifex/when_any.hpp",
     "                   std::call_once(onceFlag, []() noexcept {});\n                   return just_done();",
     "                   return just_done();",
     "when_any: done-first no longer latches (reverts fix 4183820)"),
    ("m52", "C13", "include/unifex/delay.hpp",
     "          return finally(\n              static_cast<decltype(sender)>(sender),\n              schedule_after(scheduler, duration));",
     "          return finally(\n              static_cast<decltype(sender)>(sender),\n              schedule_after(scheduler, duration / 2));",
     "delay() waits only half the duration"),
    ("m53", "C11", "include/unifex/then.hpp",
     "  static constexpr bool sends_done = sender_traits<Predecessor>::sends_done;",
     "  static constexpr bool sends_done = false;",
     "then() claims sends_done=false"),
    ("m60", "C04", "include/unifex/when_all_range.hpp",
     "  void set_done() noexcept {\n    if (!op_.doneOrError_.exchange(true, std::memory_order_relaxed)) {\n      op_.stopSource_.request_stop();\n    }",
     "  void set_done() noexcept {\n    if (!op_.doneOrError_.exchange(true, std::memory_order_relaxed)) {\n    }",
     "when_all_range: a child's done no longer cancels its siblings"),
    ("m61", "C01", "include/unifex/when_all_range.hpp",
     "    if (refCount_.fetch_add(1, std::memory_order_relaxed) == 0) {\n      // deliver_result already called\n      return;\n    }\n    stopSource_.request_stop();\n\n    element_complete();",
     "    if (refCount_.fetch_add(1, std::memory_order_relaxed) == 0) {\n      // deliver_result already called\n      return;\n    }\n    stopSource_.request_stop();\n    if (doneOrError_.load(std::memory_order_relaxed)) return;\n    element_complete();",
     "when_all_range: stop callback keeps its reference when a child already failed (lost completion)"),
    ("m62", "C05", "include/unifex/when_all_range.hpp",
     "    if (!op_.doneOrError_.exchange(true, std::memory_order_relaxed)) {\n      op_.error_.emplace(",
     "    if (!op_.doneOrError_.exchange(true, std::memory_order_relaxed) || !op_.error_.has_value()) {\n      op_.error_.emplace(",
     "when_all_range: a later error overrides an earlier done"),
    ("m63", "C01", "include/unifex/sync_wait.hpp",
     "    void set_done() && noexcept {\n      promise_.state_ = promise<T>::state::done;\n      signal_complete();",
     "    void set_done() && noexcept {\n      promise_.state_ = promise<T>::state::done;",
     "sync_wait: done never wakes the waiting thread"),
    ("m64", "C05", "include/unifex/sync_wait.hpp",
     "    case promise_t::state::done: return std::nullopt;\n    case promise_t::state::value: return std::move(promise.value_).get();",
     "    case promise_t::state::done: return std::nullopt;\n    case promise_t::state::value: { auto& v = promise.value_.get(); std::optional<Result> r{std::move(v)}; return std::optional<Result>{std::move(v)}; }",
     "sync_wait: returns a value that was already moved from"),
]


def run(cmd, **kw):
    return subprocess.run(cmd, stdout=subprocess.PIPE, stderr=subprocess.STDOUT, text=True, **kw)


def main(argv):
    only = None
    prop = None
    if "--list" in argv:
        for m in M:
            print(m[0], m[1], m[2], "-", m[5])
        return 0
    if "--only" in argv:
        only = set(argv[argv.index("--only") + 1].split(","))
    if "--prop" in argv:
        prop = argv[argv.index("--prop") + 1]
    results = []
    for (mid, pid, path, old, new, note) in M:
        if only and mid not in only:
            continue
        if prop and pid != prop:
            continue
        scratch = "/tmp/verif_mut_%s_%d" % (mid, os.getpid())
        shutil.rmtree(scratch, ignore_errors=True)
        os.makedirs(scratch)
        try:
            shutil.copytree(os.path.join(REPO, "include"), os.path.join(scratch, "include"))
            shutil.copytree(os.path.join(REPO, "source"), os.path.join(scratch, "source"))
            fp = os.path.join(scratch, path)
            src = open(fp).read()
            if src.count(old) != 1:
                print("%s: pattern found %d times in %s (expected 1) -- SKIPPED" % (mid, src.count(old), path))
                results.append(dict(id=mid, property=pid, status="pattern-mismatch"))
                continue
            open(fp, "w").write(src.replace(old, new))
            env = dict(os.environ, VERIF_REPO=scratch)
            t0 = time.time()
            p = run([os.path.join(VERIF, "bin/vcheck"), pid, "--tier", "quick"], env=env, cwd=VERIF)
            dt = time.time() - t0
            viol = [l for l in p.stdout.splitlines() if l.startswith("VIOLATION") or l.startswith("  oracle=")]
            status = "detected" if p.returncode == 1 else ("MISSED" if p.returncode == 0 else "error(rc=%d)" % p.returncode)
            print("%s %s [%s] %s (%.0fs)" % (mid, pid, status, note, dt))
            for l in viol[:4]:
                print("    " + l[:230])
            if p.returncode not in (0, 1):
                print(p.stdout[-1500:])
            results.append(dict(id=mid, property=pid, file=path, note=note, status=status, seconds=round(dt, 1),
                                oracles=sorted({l.split()[0].split("=")[1] for l in viol if l.startswith("  oracle=")})))
        finally:
            shutil.rmtree(scratch, ignore_errors=True)
            # evidence files were rewritten against the mutant: they are refreshed by the next real run
    with open(os.path.join(VERIF, "selftest", "mutants_last.json"), "w") as f:
        json.dump(results, f, indent=1)
    missed = [r for r in results if r["status"] != "detected"]
    return 1 if missed else 0


if __name__ == "__main__":
    sys.exit(main(sys.argv[1:]))
