// usim runtime — fd layer for io_epoll_context: the epoll / eventfd / pipe implementation is the
// REAL kernel (all descriptors are private and only one sim thread runs at a time, so readiness
// is a deterministic function of the syscall sequence); time is virtual: timerfd_create returns an
// eventfd that the simulated clock writes when the armed deadline is reached; epoll_wait(-1)
// becomes "poll with timeout 0, else block in the simulator until a write/close/epoll_ctl/timer".
// Faults: short reads/writes (readv/writev truncated to a legal prefix).
#include "rt_internal.hpp"

#include <dlfcn.h>
#include <errno.h>
#include <fcntl.h>
#include <stdarg.h>
#include <sys/epoll.h>
#include <sys/eventfd.h>
#include <sys/timerfd.h>
#include <sys/uio.h>
#include <unistd.h>

using namespace rt;

namespace {

struct RealFd {
  int (*epoll_wait)(int, struct epoll_event*, int, int);
  int (*epoll_ctl)(int, int, int, struct epoll_event*);
  int (*timerfd_create)(int, int);
  int (*timerfd_settime)(int, int, const struct itimerspec*, struct itimerspec*);
  ssize_t (*read)(int, void*, size_t);
  ssize_t (*write)(int, const void*, size_t);
  ssize_t (*readv)(int, const struct iovec*, int);
  ssize_t (*writev)(int, const struct iovec*, int);
  int (*close)(int);
  int (*eventfd)(unsigned, int);
  int (*pipe2)(int*, int);
} rfd;

void resolve_fd() {
  static bool done = false;
  if (done) return;
  done = true;
#define RS(name) rfd.name = (decltype(rfd.name))dlsym(RTLD_NEXT, #name)
  RS(epoll_wait); RS(epoll_ctl); RS(timerfd_create); RS(timerfd_settime); RS(read); RS(write); RS(readv); RS(writev); RS(close);
  RS(eventfd); RS(pipe2);
#undef RS
}

struct VTimer { int fd; bool live; };
MVec<VTimer> g_vtimers;
MVec<int> g_open_fds;   // descriptors created inside the current run (must all be closed by its end)
struct Reg { int epfd; int fd; void* ptr; };
MVec<Reg> g_regs;       // mirror of the epoll registration sets

VTimer* vtimer(int fd) {
  for (size_t i = 0; i < g_vtimers.size(); ++i)
    if (g_vtimers[i].fd == fd && g_vtimers[i].live) return &g_vtimers[i];
  return nullptr;
}
void note_open(int fd) { if (fd >= 0) g_open_fds.push(fd); }
bool note_close(int fd) {
  for (size_t i = 0; i < g_open_fds.size(); ++i)
    if (g_open_fds[i] == fd) { g_open_fds.erase_at(i); return true; }
  return false;
}

void timer_fire(void* arg) {
  int fd = (int)(intptr_t)arg - 1;
  uint64_t one = 1;
  if (vtimer(fd)) (void)!rfd.write(fd, &one, sizeof one);
  wake_kernel_waiters();
}

}  // namespace

namespace rt {
void fdlayer_reset() {
  resolve_fd();
  g_vtimers.clear();
  g_open_fds.clear();
  g_regs.clear();
}
// An epoll registration is a reference the kernel holds: its data.ptr comes back with the next readiness event.
// Memory that is freed while such a registration is still in place will be dereferenced by the event loop later.
void fd_on_arena_free(void* p, size_t n) {
  for (size_t i = 0; i < g_regs.size(); ++i)
    if ((uintptr_t)g_regs[i].ptr >= (uintptr_t)p && (uintptr_t)g_regs[i].ptr < (uintptr_t)p + n) {
      char msg[200];
      snprintf(msg, sizeof msg, "a %zu-byte block is freed while the epoll set still holds a registration for fd %d whose data.ptr points into it (offset +%ld): the next readiness event is dispatched into freed memory",
               n, g_regs[i].fd, (long)((uintptr_t)g_regs[i].ptr - (uintptr_t)p));
      end_run_with_verdict(USIM_V_VIOLATION, "c14.stale-registration", msg);
    }
}
int g_last_pipe[2] = {-1, -1};
void fdlayer_end_of_run() {
  if (g_open_fds.size()) {
    char msg[200];
    int o = snprintf(msg, sizeof msg, "%zu descriptor(s) created during the run were never closed:", g_open_fds.size());
    for (size_t i = 0; i < g_open_fds.size() && o < 180; ++i) o += snprintf(msg + o, sizeof msg - o, " %d", g_open_fds[i]);
    // close them so that the worker does not run out of descriptors, then report
    for (size_t i = 0; i < g_open_fds.size(); ++i) rfd.close(g_open_fds[i]);
    g_open_fds.clear();
    end_run_with_verdict(USIM_V_VIOLATION, "c14.resource", msg);
  }
}
}  // namespace rt

extern "C" {

// For the workload: the descriptors of the pipe created last (to shrink its capacity, fill and drain it behind the library's back)
void usim_last_pipe(int out[2]) { out[0] = g_last_pipe[0]; out[1] = g_last_pipe[1]; }
// For the workload: the registrations currently held by the kernel whose data.ptr lies in [p, p+n)
int usim_epoll_registrations_in(const void* p, size_t n) {
  int c = 0;
  for (size_t i = 0; i < g_regs.size(); ++i)
    if ((uintptr_t)g_regs[i].ptr >= (uintptr_t)p && (uintptr_t)g_regs[i].ptr < (uintptr_t)p + n) ++c;
  return c;
}

int epoll_wait(int epfd, struct epoll_event* ev, int maxev, int timeout) {
  resolve_fd();
  if (!sim_on()) return rfd.epoll_wait(epfd, ev, maxev, timeout);
  sched_point(OP_SYSCALL, nullptr, false);
  // (EINTR is not injected: io_epoll_context::run() documents no recovery and throws system_error)
  uint64_t deadline = timeout > 0 ? R.now_ns + (uint64_t)timeout * 1000000ull : 0;
  for (;;) {
    int r = rfd.epoll_wait(epfd, ev, maxev, 0);
    if (r != 0 || timeout == 0) return r;
    if (deadline && R.now_ns >= deadline) return 0;
    block_current(S_BLK_KERNEL, nullptr, deadline);
  }
}

int epoll_ctl(int epfd, int op, int fd, struct epoll_event* ev) {
  resolve_fd();
  if (!sim_on()) return rfd.epoll_ctl(epfd, op, fd, ev);
  sched_point(OP_SYSCALL, nullptr, true);
  int r = rfd.epoll_ctl(epfd, op, fd, ev);
  if (r == 0) {
    if (op == EPOLL_CTL_DEL || op == EPOLL_CTL_MOD) {
      for (size_t i = 0; i < g_regs.size(); ++i)
        if (g_regs[i].epfd == epfd && g_regs[i].fd == fd) { g_regs.erase_at(i); break; }
    }
    if (op == EPOLL_CTL_ADD || op == EPOLL_CTL_MOD) g_regs.push(Reg{epfd, fd, ev ? ev->data.ptr : nullptr});
  }
  wake_kernel_waiters();
  return r;
}

int timerfd_create(int clockid, int flags) {
  resolve_fd();
  if (!sim_on()) return rfd.timerfd_create(clockid, flags);
  sched_point(OP_SYSCALL, nullptr, false);
  int fd = rfd.eventfd(0, EFD_NONBLOCK | EFD_CLOEXEC);
  if (fd >= 0) { g_vtimers.push(VTimer{fd, true}); note_open(fd); }
  return fd;
}

int timerfd_settime(int fd, int flags, const struct itimerspec* nv, struct itimerspec* ov) {
  resolve_fd();
  if (!sim_on()) return rfd.timerfd_settime(fd, flags, nv, ov);
  VTimer* t = vtimer(fd);
  if (!t) return rfd.timerfd_settime(fd, flags, nv, ov);
  sched_point(OP_SYSCALL, nullptr, true);
  if (ov) memset(ov, 0, sizeof *ov);
  timer_cancel_arg((void*)(intptr_t)(fd + 1));
  uint64_t ns = (uint64_t)nv->it_value.tv_sec * 1000000000ull + (uint64_t)nv->it_value.tv_nsec;
  if (ns == 0) return 0;  // disarm
  uint64_t deadline = (flags & TFD_TIMER_ABSTIME) ? ns : R.now_ns + ns;
  if (deadline <= R.now_ns) {
    timer_fire((void*)(intptr_t)(fd + 1));
  } else {
    timer_add(deadline, &timer_fire, (void*)(intptr_t)(fd + 1));
  }
  return 0;
}

int eventfd(unsigned initval, int flags) {
  resolve_fd();
  int fd = rfd.eventfd(initval, flags);
  if (sim_on()) note_open(fd);
  return fd;
}

int pipe2(int* fds, int flags) {
  resolve_fd();
  int r = rfd.pipe2(fds, flags);
  if (r == 0 && sim_on()) { note_open(fds[0]); note_open(fds[1]); g_last_pipe[0] = fds[0]; g_last_pipe[1] = fds[1]; }
  return r;
}

int open(const char* path, int flags, ...) {
  static int (*real_open)(const char*, int, ...) = (int (*)(const char*, int, ...))dlsym(RTLD_NEXT, "open");
  mode_t mode = 0;
  if (flags & (O_CREAT | O_TMPFILE)) { va_list ap; va_start(ap, flags); mode = (mode_t)va_arg(ap, int); va_end(ap); }
  int fd = real_open(path, flags, mode);
  if (sim_on()) note_open(fd);
  return fd;
}

int epoll_create(int size) {
  static int (*real_create)(int) = (int (*)(int))dlsym(RTLD_NEXT, "epoll_create");
  int fd = real_create(size);
  if (sim_on()) note_open(fd);
  return fd;
}

int close(int fd) {
  resolve_fd();
  if (!sim_on()) return rfd.close(fd);
  sched_point(OP_SYSCALL, nullptr, true);
  if (VTimer* t = vtimer(fd)) { t->live = false; timer_cancel_arg((void*)(intptr_t)(fd + 1)); }
  if (!note_close(fd)) {
    char msg[120];
    snprintf(msg, sizeof msg, "close(%d): descriptor not open (closed twice, or not created by this run)", fd);
    end_run_with_verdict(USIM_V_VIOLATION, "c14.resource", msg);
  }
  for (size_t i = 0; i < g_regs.size();) {
    if (g_regs[i].fd == fd || g_regs[i].epfd == fd) g_regs.erase_at(i); else ++i;
  }
  if (uring_on_close) uring_on_close(fd);
  int r = rfd.close(fd);
  wake_kernel_waiters();
  return r;
}

ssize_t read(int fd, void* buf, size_t n) {
  resolve_fd();
  if (!sim_on()) return rfd.read(fd, buf, n);
  sched_point(OP_SYSCALL, nullptr, true);
  ssize_t r = rfd.read(fd, buf, n);
  wake_kernel_waiters();
  return r;
}

ssize_t write(int fd, const void* buf, size_t n) {
  resolve_fd();
  if (!sim_on()) return rfd.write(fd, buf, n);
  sched_point(OP_SYSCALL, nullptr, true);
  ssize_t r = rfd.write(fd, buf, n);
  wake_kernel_waiters();
  return r;
}

ssize_t readv(int fd, const struct iovec* iov, int cnt) {
  resolve_fd();
  if (!sim_on()) return rfd.readv(fd, iov, cnt);
  sched_point(OP_SYSCALL, nullptr, true);
  ssize_t r;
  uint64_t v = 0;
  if (cnt == 1 && iov[0].iov_len > 1 && fault(USIM_F_SYSCALL, &v)) {
    struct iovec sh = iov[0];
    sh.iov_len = 1 + (sh.iov_len - 1) / 2;  // short read: a legal prefix
    r = rfd.readv(fd, &sh, 1);
  } else {
    r = rfd.readv(fd, iov, cnt);
  }
  wake_kernel_waiters();
  return r;
}

ssize_t writev(int fd, const struct iovec* iov, int cnt) {
  resolve_fd();
  if (!sim_on()) return rfd.writev(fd, iov, cnt);
  sched_point(OP_SYSCALL, nullptr, true);
  ssize_t r;
  if (cnt == 1 && iov[0].iov_len > 1 && fault(USIM_F_SYSCALL)) {
    struct iovec sh = iov[0];
    sh.iov_len = 1 + (sh.iov_len - 1) / 2;  // short write
    r = rfd.writev(fd, &sh, 1);
  } else {
    r = rfd.writev(fd, iov, cnt);
  }
  wake_kernel_waiters();
  return r;
}

}  // extern "C"
