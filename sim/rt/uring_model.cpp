// usim runtime — an in-process model of the io_uring kernel side, written from io_uring_enter(2)
// for exactly the opcodes io_uring_context uses: NOP, READV, WRITEV, POLL_ADD, TIMEOUT (absolute),
// TIMEOUT_REMOVE, ASYNC_CANCEL. The real ring completes requests from kernel threads at times the
// simulator cannot control; here `syscall(425/426/427)` and `mmap` of the ring fd are interposed,
// the rings live in simulator memory (offsets handed out through io_uring_params) and requests are
// completed inside io_uring_enter(): immediately if possible, else when the blocked submitter is woken
// by a write/close/timer. Data transfer itself uses the real descriptors (pipes, eventfds, files).
// THIS IS A STUB: every evidence file that used it says so.
#include "rt_internal.hpp"

#include <dlfcn.h>
#include <errno.h>
#include <linux/io_uring.h>
#include <poll.h>
#include <stdarg.h>
#include <sys/eventfd.h>
#include <sys/mman.h>
#include <sys/uio.h>
#include <unistd.h>

using namespace rt;

namespace {

constexpr unsigned kSqEntries = 256, kCqEntries = 512;
struct SqRing { unsigned head, tail, ring_mask, ring_entries, flags, dropped; unsigned pad[10]; unsigned array[kSqEntries]; };
struct CqRing { unsigned head, tail, ring_mask, ring_entries, overflow; unsigned pad[11]; io_uring_cqe cqes[kCqEntries]; };

struct Req {
  io_uring_sqe sqe;
  bool done;
  uint64_t deadline;  // TIMEOUT
};

struct Ring {
  int fd = -1;
  SqRing* sq = nullptr;
  CqRing* cq = nullptr;
  io_uring_sqe* sqes = nullptr;
  MVec<Req> inflight;
  bool live = false;
  int mapped[3] = {0, 0, 0};    // sq, cq, sqes: currently mapped?
  size_t maplen[3] = {0, 0, 0};
};
Ring g_rings[4];

void* (*real_mmap)(void*, size_t, int, int, int, off_t);
int (*real_munmap)(void*, size_t);
int (*real_eventfd)(unsigned, int);
ssize_t (*real_readv)(int, const struct iovec*, int);
ssize_t (*real_writev)(int, const struct iovec*, int);
ssize_t (*real_preadv)(int, const struct iovec*, int, off_t);
ssize_t (*real_pwritev)(int, const struct iovec*, int, off_t);

void resolve_u() {
  static bool done = false;
  if (done) return;
  done = true;
  real_mmap = (decltype(real_mmap))dlsym(RTLD_NEXT, "mmap");
  real_munmap = (decltype(real_munmap))dlsym(RTLD_NEXT, "munmap");
  real_eventfd = (decltype(real_eventfd))dlsym(RTLD_NEXT, "eventfd");
  real_readv = (decltype(real_readv))dlsym(RTLD_NEXT, "readv");
  real_writev = (decltype(real_writev))dlsym(RTLD_NEXT, "writev");
  real_preadv = (decltype(real_preadv))dlsym(RTLD_NEXT, "preadv");
  real_pwritev = (decltype(real_pwritev))dlsym(RTLD_NEXT, "pwritev");
}

Ring* ring_of(int fd) {
  for (auto& r : g_rings) if (r.live && r.fd == fd) return &r;
  return nullptr;
}
// ring memory lookup: which region of which ring starts at p
Ring* ring_region(void* p, int* which) {
  for (auto& r : g_rings) {
    if (!r.live) continue;
    if (p == r.sq) { *which = 0; return &r; }
    if (p == r.cq) { *which = 1; return &r; }
    if (p == r.sqes) { *which = 2; return &r; }
  }
  return nullptr;
}

void post_cqe(Ring* r, uint64_t user_data, int res) {
  CqRing* cq = r->cq;
  unsigned tail = __atomic_load_n(&cq->tail, __ATOMIC_ACQUIRE);
  unsigned head = __atomic_load_n(&cq->head, __ATOMIC_ACQUIRE);
  if (tail - head >= kCqEntries) { __atomic_fetch_add(&cq->overflow, 1, __ATOMIC_RELAXED); return; }
  io_uring_cqe& e = cq->cqes[tail & (kCqEntries - 1)];
  e.user_data = user_data;
  e.res = res;
  e.flags = 0;
  __atomic_store_n(&cq->tail, tail + 1, __ATOMIC_RELEASE);
}

bool seekable(int fd) { return lseek(fd, 0, SEEK_CUR) != (off_t)-1; }

// the user memory the kernel would touch must still be alive
void check_user_mem(const void* p, size_t n, bool write, const char* what) {
  if (!in_arena(p)) return;
  (void)what;
  arena_check(p, n ? n : 1, write);
}

// try to complete one request now; returns true if it completed
bool try_complete(Ring* r, Req& q, bool allow_delay) {
  io_uring_sqe& s = q.sqe;
  switch (s.opcode) {
    case IORING_OP_NOP: post_cqe(r, s.user_data, 0); return true;
    case IORING_OP_POLL_ADD: {
      struct pollfd p{s.fd, (short)s.poll_events, 0};
      int n = poll(&p, 1, 0);
      if (n <= 0) return false;
      if (allow_delay && fault(USIM_F_KERNEL_DELAY)) return false;
      post_cqe(r, s.user_data, p.revents);
      return true;
    }
    case IORING_OP_READV: case IORING_OP_WRITEV: {
      bool rd = s.opcode == IORING_OP_READV;
      const struct iovec* iov = (const struct iovec*)(uintptr_t)s.addr;
      if (!seekable(s.fd)) {
        struct pollfd p{s.fd, (short)(rd ? POLLIN : POLLOUT), 0};
        int n = poll(&p, 1, 0);
        if (n <= 0) return false;  // would block: stays in flight
      }
      if (allow_delay && fault(USIM_F_KERNEL_DELAY)) return false;
      check_user_mem(iov, sizeof(struct iovec) * s.len, false, "iovec array");
      for (unsigned i = 0; i < s.len; ++i) check_user_mem(iov[i].iov_base, iov[i].iov_len, rd, "I/O buffer");
      ssize_t n;
      struct iovec sh;
      const struct iovec* use = iov;
      int cnt = (int)s.len;
      if (cnt == 1 && iov[0].iov_len > 1 && fault(USIM_F_SYSCALL)) { sh = iov[0]; sh.iov_len = 1 + (sh.iov_len - 1) / 2; use = &sh; }  // short transfer
      if (seekable(s.fd)) n = rd ? real_preadv(s.fd, use, cnt, (off_t)s.off) : real_pwritev(s.fd, use, cnt, (off_t)s.off);
      else n = rd ? real_readv(s.fd, use, cnt) : real_writev(s.fd, use, cnt);
      if (n < 0 && (errno == EAGAIN || errno == EWOULDBLOCK)) return false;
      post_cqe(r, s.user_data, n < 0 ? -errno : (int)n);
      wake_kernel_waiters();
      return true;
    }
    case IORING_OP_TIMEOUT: {
      if (!q.deadline) {
        const struct __kernel_timespec* ts = (const struct __kernel_timespec*)(uintptr_t)s.addr;
        check_user_mem(ts, sizeof *ts, false, "timespec");
        uint64_t ns = (uint64_t)ts->tv_sec * 1000000000ull + (uint64_t)ts->tv_nsec;
        q.deadline = (s.timeout_flags & IORING_TIMEOUT_ABS) ? (ns ? ns : 1) : R.now_ns + ns;
      }
      if (R.now_ns < q.deadline) return false;
      post_cqe(r, s.user_data, -ETIME);
      return true;
    }
    case IORING_OP_TIMEOUT_REMOVE: case IORING_OP_ASYNC_CANCEL: {
      int res = -ENOENT;
      // SQEs are issued in ring order: only requests submitted before this one can be found
      for (size_t i = 0; i < r->inflight.size() && &r->inflight[i] != &q; ++i) {
        Req& t = r->inflight[i];
        if (t.done || t.sqe.user_data != s.addr) continue;
        if (s.opcode == IORING_OP_TIMEOUT_REMOVE && t.sqe.opcode != IORING_OP_TIMEOUT) continue;
        t.done = true;
        post_cqe(r, t.sqe.user_data, -ECANCELED);
        res = 0;
        break;
      }
      post_cqe(r, s.user_data, res);
      return true;
    }
    default: post_cqe(r, s.user_data, -EINVAL); return true;
  }
}

int progress(Ring* r, bool allow_delay) {
  int n = 0;
  for (size_t i = 0; i < r->inflight.size(); ++i) {
    Req& q = r->inflight[i];
    if (q.done) continue;
    if (try_complete(r, q, allow_delay)) { q.done = true; ++n; }
  }
  // compact
  size_t w = 0;
  for (size_t i = 0; i < r->inflight.size(); ++i)
    if (!r->inflight[i].done) r->inflight[w++] = r->inflight[i];
  r->inflight.n = w;
  return n;
}

uint64_t earliest_timeout(Ring* r) {
  uint64_t best = 0;
  for (size_t i = 0; i < r->inflight.size(); ++i) {
    Req& q = r->inflight[i];
    if (!q.done && q.sqe.opcode == IORING_OP_TIMEOUT && q.deadline && (!best || q.deadline < best)) best = q.deadline;
  }
  return best;
}

long model_setup(unsigned entries, io_uring_params* p) {
  resolve_u();
  (void)entries;
  Ring* r = nullptr;
  for (auto& x : g_rings) if (!x.live) { r = &x; break; }
  if (!r) { errno = ENFILE; return -1; }
  r->fd = eventfd(0, EFD_CLOEXEC);  // the fd layer's eventfd: accounted, must be closed by the context
  r->sq = (SqRing*)aligned_alloc(4096, (sizeof(SqRing) + 4095) & ~4095ul);
  r->cq = (CqRing*)aligned_alloc(4096, (sizeof(CqRing) + 4095) & ~4095ul);
  r->sqes = (io_uring_sqe*)aligned_alloc(4096, (sizeof(io_uring_sqe) * kSqEntries + 4095) & ~4095ul);
  memset(r->sq, 0, sizeof(SqRing)); memset(r->cq, 0, sizeof(CqRing)); memset(r->sqes, 0, sizeof(io_uring_sqe) * kSqEntries);
  r->sq->ring_mask = kSqEntries - 1; r->sq->ring_entries = kSqEntries;
  r->cq->ring_mask = kCqEntries - 1; r->cq->ring_entries = kCqEntries;
  r->inflight.clear();
  r->live = true;
  memset(p, 0, sizeof *p);
  p->sq_entries = kSqEntries;
  p->cq_entries = kCqEntries;
  p->sq_off.head = offsetof(SqRing, head); p->sq_off.tail = offsetof(SqRing, tail); p->sq_off.ring_mask = offsetof(SqRing, ring_mask);
  p->sq_off.ring_entries = offsetof(SqRing, ring_entries); p->sq_off.flags = offsetof(SqRing, flags); p->sq_off.dropped = offsetof(SqRing, dropped);
  p->sq_off.array = offsetof(SqRing, array);
  p->cq_off.head = offsetof(CqRing, head); p->cq_off.tail = offsetof(CqRing, tail); p->cq_off.ring_mask = offsetof(CqRing, ring_mask);
  p->cq_off.ring_entries = offsetof(CqRing, ring_entries); p->cq_off.overflow = offsetof(CqRing, overflow); p->cq_off.cqes = offsetof(CqRing, cqes);
  return r->fd;
}

long model_enter(int fd, unsigned to_submit, unsigned min_complete, unsigned flags) {
  Ring* r = ring_of(fd);
  if (!r) { errno = EBADF; return -1; }
  sched_point(OP_KERNEL, nullptr, true);
  // consume submissions
  unsigned head = __atomic_load_n(&r->sq->head, __ATOMIC_ACQUIRE);
  unsigned tail = __atomic_load_n(&r->sq->tail, __ATOMIC_ACQUIRE);
  unsigned n = 0;
  while (n < to_submit && head != tail) {
    unsigned idx = r->sq->array[head & (kSqEntries - 1)];
    Req q;
    q.sqe = r->sqes[idx & (kSqEntries - 1)];
    q.done = false;
    q.deadline = 0;
    r->inflight.push(q);
    ++head;
    ++n;
  }
  __atomic_store_n(&r->sq->head, head, __ATOMIC_RELEASE);
  progress(r, true);
  if ((flags & IORING_ENTER_GETEVENTS) && min_complete) {
    for (;;) {
      unsigned avail = __atomic_load_n(&r->cq->tail, __ATOMIC_ACQUIRE) - __atomic_load_n(&r->cq->head, __ATOMIC_ACQUIRE);
      if (avail >= min_complete) break;
      if (progress(r, false)) continue;
      block_current(S_BLK_KERNEL, nullptr, earliest_timeout(r));
      progress(r, false);
    }
  }
  return (long)n;
}

}  // namespace

namespace rt {
void uring_on_close(int fd) {
  if (Ring* r = ring_of(fd)) r->fd = -2;  // memory stays until the end of the run (late munmap is legal)
}
void uring_end_of_run() {
  for (auto& r : g_rings) {
    if (!r.live) continue;
    static const char* nm[3] = {"SQ ring", "CQ ring", "SQE array"};
    for (int k = 0; k < 3; ++k)
      if (r.mapped[k]) {
        char msg[120];
        snprintf(msg, sizeof msg, "io_uring %s mapping (%zu bytes) was never unmapped", nm[k], r.maplen[k]);
        end_run_with_verdict(USIM_V_VIOLATION, "c14.resource", msg);
      }
  }
}
void uring_reset() {
  for (auto& r : g_rings) {
    if (r.live) { free(r.sq); free(r.cq); free(r.sqes); }
    r = Ring{};
  }
}
}  // namespace rt

extern "C" {

long syscall(long number, ...) {
  va_list ap;
  va_start(ap, number);
  long a = va_arg(ap, long), b = va_arg(ap, long), c = va_arg(ap, long), d = va_arg(ap, long), e = va_arg(ap, long), f = va_arg(ap, long);
  va_end(ap);
  if (sim_on()) {
    if (number == 425) return model_setup((unsigned)a, (io_uring_params*)b);
    if (number == 426) return model_enter((int)a, (unsigned)b, (unsigned)c, (unsigned)d);
    if (number == 427) { errno = EINVAL; return -1; }
  }
  long r = raw_syscall6(number, a, b, c, d, e, f);
  if (r < 0 && r > -4096) { errno = (int)-r; return -1; }
  return r;
}

void* mmap(void* addr, size_t len, int prot, int flags, int fd, off_t off) {
  resolve_u();
  if (sim_on()) {
    if (Ring* r = ring_of(fd)) {
      int k = off == (off_t)IORING_OFF_SQ_RING ? 0 : off == (off_t)IORING_OFF_CQ_RING ? 1 : off == (off_t)IORING_OFF_SQES ? 2 : -1;
      size_t cap = k == 0 ? sizeof(SqRing) : k == 1 ? sizeof(CqRing) : sizeof(io_uring_sqe) * kSqEntries;
      if (k < 0 || len > ((cap + 4095) & ~4095ul) || r->mapped[k]) { errno = EINVAL; return MAP_FAILED; }
      r->mapped[k] = 1;
      r->maplen[k] = len;
      return k == 0 ? (void*)r->sq : k == 1 ? (void*)r->cq : (void*)r->sqes;
    }
  }
  return real_mmap(addr, len, prot, flags, fd, off);
}

int munmap(void* addr, size_t len) {
  resolve_u();
  int k;
  if (Ring* r = ring_region(addr, &k)) {  // the memory itself is released with the model at the end of the run
    if (!r->mapped[k] || len != r->maplen[k]) {
      char msg[140];
      snprintf(msg, sizeof msg, "munmap(%s region, %zu): %s", k == 0 ? "SQ" : k == 1 ? "CQ" : "SQE", len,
               r->mapped[k] ? "length differs from the mapping's" : "region is not mapped (unmapped twice)");
      end_run_with_verdict(USIM_V_VIOLATION, "c14.resource", msg);
    }
    r->mapped[k] = 0;
    return 0;
  }
  return real_munmap(addr, len);
}

}  // extern "C"
