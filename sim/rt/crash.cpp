// usim runtime — crash handling: signals and std::terminate inside a run become verdicts.
#include "rt_internal.hpp"

#include <cxxabi.h>
#include <dlfcn.h>
#include <exception>
#include <execinfo.h>
#include <sys/mman.h>
#include <unistd.h>

namespace rt {

static void backtrace_text(char* out, size_t n, int skip) {
  void* pcs[40];
  int c = backtrace(pcs, 40);
  size_t o = 0;
  int shown = 0;
  for (int i = skip; i < c && shown < 14 && o + 200 < n; ++i) {
    Dl_info di;
    const char* name = nullptr;
    if (dladdr(pcs[i], &di) && di.dli_sname) name = di.dli_sname;
    if (!name) continue;
    int st = 0;
    char* dm = abi::__cxa_demangle(name, nullptr, nullptr, &st);
    const char* s = (st == 0 && dm) ? dm : name;
    // keep messages short: cut template noise
    char shortn[150];
    snprintf(shortn, sizeof shortn, "%.145s", s);
    o += snprintf(out + o, n - o, "%s <- ", shortn);
    free(dm);
    ++shown;
  }
  if (n) out[o < n ? o : n - 1] = 0;
}

// first frames that belong to the library (demangled, shortened): the "site" of a violation
void library_site(char* out, size_t n) {
  void* pcs[48];
  int c = backtrace(pcs, 48);
  size_t o = 0;
  int shown = 0;
  if (n) out[0] = 0;
  for (int i = 1; i < c && shown < 4 && o + 130 < n; ++i) {
    Dl_info di;
    if (!dladdr(pcs[i], &di) || !di.dli_sname) continue;
    int st = 0;
    char* dm = abi::__cxa_demangle(di.dli_sname, nullptr, nullptr, &st);
    const char* s = (st == 0 && dm) ? dm : di.dli_sname;
    if (strstr(s, "unifex::") && !strstr(s, "rt::")) {
      // strip the argument list; keep (shortened) template arguments: they often name the culprit
      char buf[120];
      size_t k = 0;
      int depth = 0;
      for (const char* q = s; *q && k + 1 < sizeof buf; ++q) {
        if (*q == '<') ++depth;
        if (*q == '>') { if (depth) --depth; }
        if (*q == '(' && depth == 0) break;
        if (depth > 2) continue;  // drop deeply nested template noise
        buf[k++] = *q;
      }
      buf[k] = 0;
      o += snprintf(out + o, n - o, "%s%s", shown ? " <- " : "", buf);
      ++shown;
    }
    free(dm);
  }
}

static void on_signal(int sig, siginfo_t* si, void*) {
  static volatile int once = 0;
  if (__atomic_exchange_n(&once, 1, __ATOMIC_SEQ_CST)) _exit(99);
  Thread* me = tl_self;
  if (me) ++me->in_rt;
  char bt[1500];
  backtrace_text(bt, sizeof bt, 2);
  char msg[1900];
  snprintf(msg, sizeof msg, "signal %d (%s) addr=%p in T%d; stack: %s", sig,
           sig == SIGSEGV ? "SIGSEGV" : sig == SIGBUS ? "SIGBUS" : sig == SIGABRT ? "SIGABRT" : sig == SIGFPE ? "SIGFPE" : "SIGILL",
           si ? si->si_addr : nullptr, me ? me->id : -1, bt);
  if (R.active) end_run_with_verdict(USIM_V_CRASH, sig == SIGABRT ? "lib.abort" : "mem.wild-access", msg);
  fprintf(stderr, "usim: fatal outside run: %s\n", msg);
  _exit(98);
}

static void on_terminate() {
  Thread* me = tl_self;
  if (me) ++me->in_rt;
  char bt[1200];
  backtrace_text(bt, sizeof bt, 1);
  char msg[1500];
  const char* what = "";
  char whatbuf[200] = "";
  if (auto e = std::current_exception()) {
    try { std::rethrow_exception(e); }
    catch (const std::exception& ex) { snprintf(whatbuf, sizeof whatbuf, " uncaught: %s;", ex.what()); }
    catch (...) { snprintf(whatbuf, sizeof whatbuf, " uncaught non-std exception;"); }
    what = whatbuf;
  }
  snprintf(msg, sizeof msg, "std::terminate called in T%d;%s stack: %s", me ? me->id : -1, what, bt);
  if (R.active) end_run_with_verdict(USIM_V_CRASH, "lib.terminate", msg);
  fprintf(stderr, "usim: %s\n", msg);
  _exit(97);
}

void crash_install() {
  struct sigaction sa;
  memset(&sa, 0, sizeof sa);
  sa.sa_sigaction = on_signal;
  sa.sa_flags = SA_SIGINFO | SA_ONSTACK | SA_NODEFER;
  sigemptyset(&sa.sa_mask);
  sigaction(SIGSEGV, &sa, nullptr);
  sigaction(SIGBUS, &sa, nullptr);
  sigaction(SIGABRT, &sa, nullptr);
  sigaction(SIGFPE, &sa, nullptr);
  sigaction(SIGILL, &sa, nullptr);
  std::set_terminate(on_terminate);
}

static void* g_alt[kMaxThreads];
void crash_thread_init(Thread* t) {
  if (!g_alt[t->id]) g_alt[t->id] = mmap(nullptr, 1 << 16, PROT_READ | PROT_WRITE, MAP_PRIVATE | MAP_ANONYMOUS, -1, 0);
  stack_t ss;
  ss.ss_sp = g_alt[t->id];
  ss.ss_size = 1 << 16;
  ss.ss_flags = 0;
  sigaltstack(&ss, nullptr);
}

}  // namespace rt

// for harness debugging traces
void kit_site(char* out, size_t n) { rt::library_site(out, n); }
