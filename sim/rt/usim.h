// usim — deterministic simulator runtime for libunifex: public interface.
// See /verif/DESIGN.md §2. Everything here has C linkage and is safe to call
// from instrumented (harness / library) code.
#pragma once
#include <stddef.h>
#include <stdint.h>

#ifdef __cplusplus
extern "C" {
#endif

// Fault kinds (indices into per-run counters; names in usim_fault_name()).
enum {
  USIM_F_CAS_WEAK = 0,   // spurious compare_exchange_weak failure
  USIM_F_COND_SPURIOUS,  // spurious condition-variable wake-up
  USIM_F_CLOCK_JITTER,   // extra advance between two clock reads
  USIM_F_ALLOC,          // bad_alloc inside a designated window
  USIM_F_THROW,          // harness: throw at a tracked copy/move/invoke/connect
  USIM_F_TIMER_FIRST,    // clock advanced although threads were runnable
  USIM_F_SYSCALL,        // interposed syscall returns a legal errno / short count
  USIM_F_STOP_REG_THROW, // harness stop token: registration throws
  USIM_F_KERNEL_DELAY,   // uring model: completion delayed / reordered
  USIM_F_COUNT
};

// Verdicts
enum {
  USIM_V_OK = 0,
  USIM_V_VIOLATION,  // an oracle reported (usim_report)
  USIM_V_DEADLOCK,   // no thread enabled, no timed waiter
  USIM_V_LIVELOCK,   // step cap
  USIM_V_CRASH,      // signal / terminate / library assertion
};

typedef void (*usim_body_fn)(void*);

// ---- identity / time / ordering
int usim_active(void);      // 1 while a run is executing and caller is a sim thread
int usim_here(void);        // logical thread id (0 = body), -1 if not a sim thread
uint64_t usim_now(void);    // simulated nanoseconds (does not advance the clock)
uint64_t usim_seq(void);    // global event sequence number (bumps on each call)
uint64_t usim_step(void);   // scheduling points so far
int usim_live_threads(void); // sim threads that have not finished (including the caller)

// ---- scheduling
void usim_yield(void);                       // scheduling point; marks caller Yielded
void usim_point(void);                       // plain scheduling point
void usim_np_begin(void);                    // no-preempt + harness-allocation scope
void usim_np_end(void);
void usim_wait(int (*pred)(void*), void* arg);  // block until pred(arg) != 0
void usim_sleep_ns(uint64_t ns);             // block on the simulated clock

// ---- plan tape / faults / choices
uint64_t usim_draw(uint64_t n);   // value in [0,n); 0 is "simplest"; recorded on the tape
int usim_fault(int kind);         // 1 if a fault of this kind fires here (recorded)
void usim_fault_rate(int kind, unsigned per_mille);  // exploration rate for a kind (0 = off)
void usim_alloc_fault_window(int on);  // operator new may throw while on (kind ALLOC)

// ---- oracles
void usim_report(const char* oracle, const char* fmt, ...)
    __attribute__((format(printf, 2, 3)));  // records the violation; ends the run; no return if active
void usim_probe(const char* name);          // reach probe (counted per run and per batch)
void usim_note_nontrivial(void);            // marks run as non-trivial for evidence
void usim_trace(uint64_t v);                // fold a harness event into the trace hash
void usim_sample(const char* fmt, ...) __attribute__((format(printf, 1, 2)));  // plan text for evidence/replay

// ---- memory
void* usim_alloc(size_t n);   // arena block, poisoned, LIVE (library-visible storage)
void usim_free(void* p);      // FREED + quarantined
void usim_mark_dead(void* p, size_t n);   // declare [p,p+n) dead without freeing the block
void usim_mark_live(void* p, size_t n);
int usim_in_arena(const void* p);
size_t usim_live_blocks(void);  // library-tagged blocks still alive
void usim_expect_leak(void* p); // exempt a block from the end-of-run leak check

// ---- driver (called by workload main)
typedef struct usim_workload {
  const char* name;
  usim_body_fn body;
} usim_workload;
int usim_main(int argc, char** argv, const usim_workload* table, int n);
const char* usim_param(const char* key, const char* dflt);  // --param k=v
long usim_param_int(const char* key, long dflt);

// library assertion redirect (see usim_assert.h)
void usim_assert_fail(const char* expr, const char* file, int line);

#ifdef __cplusplus
}
#endif

#ifdef __cplusplus
namespace usim {
struct np_scope {
  np_scope() noexcept { usim_np_begin(); }
  ~np_scope() { usim_np_end(); }
  np_scope(const np_scope&) = delete;
};
}  // namespace usim
#endif
