// usim runtime — pthread / time interposition. These definitions live in the
// executable and therefore interpose calls made by libstdc++.so as well as by
// inlined headers. While a run is active and the caller is a sim thread the
// real primitive is never entered; otherwise the call passes through.
#include "rt_internal.hpp"

#include <errno.h>
#include <sched.h>
#include <sys/mman.h>
#include <unistd.h>

using namespace rt;

namespace {

struct MutexSt { const void* addr; int owner; int count; };
MVec<MutexSt> g_mutexes;
uint64_t g_wait_seq = 0;
uint64_t g_thread_wait_seq[kMaxThreads];

MutexSt* mutex_find(const void* m, bool create) {
  for (size_t i = 0; i < g_mutexes.size(); ++i)
    if (g_mutexes[i].addr == m) return &g_mutexes[i];
  if (!create) return nullptr;
  g_mutexes.push(MutexSt{m, -1, 0});
  return &g_mutexes[g_mutexes.size() - 1];
}

bool is_recursive(pthread_mutex_t* m) {
  return (m->__data.__kind & 127) == PTHREAD_MUTEX_RECURSIVE_NP;
}

void wake_mutex_waiters(const void* m) {
  for (int i = 0; i < R.nthreads; ++i)
    if (R.thr[i].st == S_BLK_MUTEX && R.thr[i].wait_obj == m) make_runnable(&R.thr[i]);
}

int sim_mutex_lock(pthread_mutex_t* m, bool try_only) {
  Thread* me = tl_self;
  sched_point(try_only ? OP_MTRY : OP_MLOCK, m, true);
  if (in_arena(m)) arena_check(m, sizeof(int), true);  // a mutex inside a freed object
  for (;;) {
    MutexSt* s = mutex_find(m, true);
    if (s->owner < 0) { s->owner = me->id; s->count = 1; spin_note_progress(); return 0; }
    if (s->owner == me->id) {
      if (is_recursive(m)) { s->count++; return 0; }
      if (try_only) return EBUSY;
      end_run_with_verdict(USIM_V_DEADLOCK, "sim.deadlock", "relock of a non-recursive mutex by its owner");
    }
    if (try_only) return EBUSY;
    block_current(S_BLK_MUTEX, m, 0);
  }
}

int sim_mutex_unlock(pthread_mutex_t* m) {
  Thread* me = tl_self;
  sched_point(OP_MUNLOCK, m, true);
  if (in_arena(m)) arena_check(m, sizeof(int), true);
  MutexSt* s = mutex_find(m, false);
  if (!s || s->owner != me->id) return EPERM;
  if (--s->count == 0) { s->owner = -1; wake_mutex_waiters(m); }
  spin_note_progress();
  sched_point(OP_POST, m, false);
  return 0;
}

// release fully for cond wait; returns recursion count to restore
int mutex_release_all(pthread_mutex_t* m) {
  MutexSt* s = mutex_find(m, false);
  if (!s || s->owner != tl_self->id) return 0;
  int c = s->count;
  s->count = 0; s->owner = -1;
  wake_mutex_waiters(m);
  return c;
}
void mutex_reacquire(pthread_mutex_t* m, int count) {
  Thread* me = tl_self;
  for (;;) {
    MutexSt* s = mutex_find(m, true);
    if (s->owner < 0) { s->owner = me->id; s->count = count ? count : 1; return; }
    block_current(S_BLK_MUTEX, m, 0);
  }
}

uint64_t abs_deadline(clockid_t, const struct timespec* ts) {
  // every clock is the simulated clock (realtime has the same origin)
  int64_t ns = (int64_t)ts->tv_sec * 1000000000ll + ts->tv_nsec;
  if (ns <= 0) ns = 1;
  return (uint64_t)ns;
}

int sim_cond_wait(pthread_cond_t* c, pthread_mutex_t* m, uint64_t deadline) {
  Thread* me = tl_self;
  sched_point(OP_CWAIT, c, true);
  int cnt = mutex_release_all(m);
  int rc = 0;
  if (fault(USIM_F_COND_SPURIOUS)) {
    // spurious wake-up: give others a chance, then return without having been signalled
    sched_point(OP_CWAIT, c, false);
  } else if (deadline && deadline <= R.now_ns) {
    rc = ETIMEDOUT;
  } else {
    g_thread_wait_seq[me->id] = ++g_wait_seq;
    block_current(S_BLK_COND, c, deadline);
    if (me->timed_out) rc = ETIMEDOUT;
  }
  mutex_reacquire(m, cnt);
  spin_note_progress();
  return rc;
}

int sim_cond_wake(pthread_cond_t* c, bool all) {
  sched_point(all ? OP_CBCAST : OP_CSIGNAL, c, true);
  int w[kMaxThreads], n = 0;
  for (int i = 0; i < R.nthreads; ++i)
    if (R.thr[i].st == S_BLK_COND && R.thr[i].wait_obj == c) w[n++] = i;
  if (!n) return 0;
  // FIFO order by wait sequence
  for (int i = 1; i < n; ++i)
    for (int k = i; k > 0 && g_thread_wait_seq[w[k]] < g_thread_wait_seq[w[k - 1]]; --k) {
      int t = w[k]; w[k] = w[k - 1]; w[k - 1] = t;
    }
  if (all) {
    for (int i = 0; i < n; ++i) make_runnable(&R.thr[w[i]]);
  } else {
    make_runnable(&R.thr[w[choose(n)]]);
  }
  return 0;
}

// ---- thread creation
volatile int g_release = 0;

void finish_current(Thread* me) {
  RtScope g(me);
  R.step++;
  hash_fold((uint64_t)me->id * 131 + OP_EXIT);
  R.change_counter++;
  me->st = S_FINISHED;
  R.finished++;
  for (int i = 0; i < R.nthreads; ++i)
    if (R.thr[i].st == S_BLK_JOIN && R.thr[i].wait_obj == me) make_runnable(&R.thr[i]);
}

}  // namespace

namespace rt {

void shim_reset() {
  g_mutexes.clear();
  g_wait_seq = 0;
  memset(g_thread_wait_seq, 0, sizeof g_thread_wait_seq);
  __atomic_store_n(&g_release, 0, __ATOMIC_SEQ_CST);
}

static void wait_release() {
  while (!__atomic_load_n(&g_release, __ATOMIC_SEQ_CST)) futex_wait(&g_release, 0);
}
void release_all_carriers() {
  __atomic_store_n(&g_release, 1, __ATOMIC_SEQ_CST);
  futex_wake(&g_release, 1 << 30);
}

void* trampoline_impl(Thread* me) {
  tl_self = me;
  crash_thread_init(me);
  // wait for the baton
  while (!__atomic_load_n(&me->go, __ATOMIC_SEQ_CST)) futex_wait(&me->go, 0);
  __atomic_store_n(&me->go, 0, __ATOMIC_SEQ_CST);
  void* ret = nullptr;
  if (me->body) me->body(me->arg);
  else ret = me->fn(me->arg);
  me->ret = ret;
  finish_current(me);
  if (R.finished == R.nthreads) {
    // run is over
    __atomic_store_n(&R.done_futex, 1, __ATOMIC_SEQ_CST);
    futex_wake(&R.done_futex, 1);
  } else {
    // give the baton to somebody else; we never need it again
    sched_pass_from_finished(me);
  }
  wait_release();
  tl_self = nullptr;
  return ret;
}

}  // namespace rt

extern "C" void* usim_trampoline(void* p) { return rt::trampoline_impl((Thread*)p); }

// =================================================================== interposed symbols
extern "C" {

int pthread_mutex_lock(pthread_mutex_t* m) {
  if (!sim_on()) { resolve_real(); return real.pthread_mutex_lock(m); }
  return sim_mutex_lock(m, false);
}
int pthread_mutex_trylock(pthread_mutex_t* m) {
  if (!sim_on()) { resolve_real(); return real.pthread_mutex_trylock(m); }
  return sim_mutex_lock(m, true);
}
int pthread_mutex_unlock(pthread_mutex_t* m) {
  if (!sim_on()) { resolve_real(); return real.pthread_mutex_unlock(m); }
  return sim_mutex_unlock(m);
}

int pthread_cond_wait(pthread_cond_t* c, pthread_mutex_t* m) {
  if (!sim_on()) { resolve_real(); return real.pthread_cond_wait(c, m); }
  return sim_cond_wait(c, m, 0);
}
int pthread_cond_timedwait(pthread_cond_t* c, pthread_mutex_t* m, const struct timespec* ts) {
  if (!sim_on()) { resolve_real(); return real.pthread_cond_timedwait(c, m, ts); }
  return sim_cond_wait(c, m, abs_deadline(CLOCK_REALTIME, ts));
}
int pthread_cond_clockwait(pthread_cond_t* c, pthread_mutex_t* m, clockid_t clk, const struct timespec* ts) {
  if (!sim_on()) { resolve_real(); return real.pthread_cond_clockwait(c, m, clk, ts); }
  return sim_cond_wait(c, m, abs_deadline(clk, ts));
}
int pthread_cond_signal(pthread_cond_t* c) {
  if (!sim_on()) { resolve_real(); return real.pthread_cond_signal(c); }
  return sim_cond_wake(c, false);
}
int pthread_cond_broadcast(pthread_cond_t* c) {
  if (!sim_on()) { resolve_real(); return real.pthread_cond_broadcast(c); }
  return sim_cond_wake(c, true);
}

int pthread_once(pthread_once_t* o, void (*fn)(void)) {
  if (!sim_on()) { resolve_real(); return real.pthread_once(o, fn); }
  // state kept in the object itself so that it survives across runs: 0 new, 1 running, 2 done
  sched_point(OP_ONCE, o, true);
  volatile int* st = (volatile int*)o;
  for (;;) {
    if (*st == 2) return 0;
    if (*st == 0) {
      *st = 1;
      auto wake = [o] {
        for (int i = 0; i < R.nthreads; ++i)
          if (R.thr[i].st == S_BLK_ONCE && R.thr[i].wait_obj == (const void*)o) make_runnable(&R.thr[i]);
      };
      try {
        fn();
      } catch (...) {
        // an exceptional call (std::call_once whose callable throws): glibc resets the control so that another call can run it
        *st = 0;
        wake();
        throw;
      }
      *st = 2;
      wake();
      return 0;
    }
    block_current(S_BLK_ONCE, (const void*)o, 0);
  }
}

int pthread_create(pthread_t* out, const pthread_attr_t* attr, void* (*fn)(void*), void* arg) {
  resolve_real();
  if (!sim_on()) return real.pthread_create(out, attr, fn, arg);
  Thread* me = tl_self;
  sched_point(OP_CREATE, nullptr, true);
  RtScope g(me);
  if (R.nthreads >= kMaxThreads) return EAGAIN;
  Thread& t = R.thr[R.nthreads];
  int id = R.nthreads;
  t = Thread{};
  t.id = id;
  t.fn = fn;
  t.arg = arg;
  t.st = S_RUNNABLE;
  t.prio = (int64_t)R.rng_sched.below(1000000);
  if (R.replay) t.prio = 0;
  t.last_run = R.step;
  if (attr) {
    int ds = 0;
    pthread_attr_getdetachstate(attr, &ds);
    t.detached = ds == PTHREAD_CREATE_DETACHED;
  }
  R.nthreads++;
  pthread_attr_t a;
  pthread_attr_init(&a);
  pthread_attr_setstacksize(&a, 4 << 20);
  int rc = real.pthread_create(&t.real, &a, usim_trampoline, &t);
  pthread_attr_destroy(&a);
  if (rc) { R.nthreads--; return rc; }
  *out = t.real;
  return 0;
}

static Thread* find_by_real(pthread_t p) {
  for (int i = 0; i < R.nthreads; ++i)
    if (pthread_equal(R.thr[i].real, p)) return &R.thr[i];
  return nullptr;
}

int pthread_join(pthread_t th, void** ret) {
  resolve_real();
  if (!sim_on()) return real.pthread_join(th, ret);
  Thread* t = find_by_real(th);
  if (!t) return ESRCH;
  sched_point(OP_JOIN, t, false);
  if (t == tl_self) return EDEADLK;
  while (t->st != S_FINISHED) block_current(S_BLK_JOIN, t, 0);
  t->joined = true;
  if (ret) *ret = t->ret;
  spin_note_progress();
  return 0;
}

int pthread_detach(pthread_t th) {
  resolve_real();
  if (!sim_on()) return real.pthread_detach(th);
  Thread* t = find_by_real(th);
  if (!t) return ESRCH;
  t->detached = true;
  return 0;
}

int sched_yield(void) {
  usim_yield();
  return 0;
}

int clock_gettime(clockid_t clk, struct timespec* ts) {
  if (!sim_on()) {
    if (tl_self && R.active) {  // inside the runtime: do not advance
      ts->tv_sec = R.now_ns / 1000000000ull; ts->tv_nsec = R.now_ns % 1000000000ull; return 0;
    }
    resolve_real();
    return real.clock_gettime(clk, ts);
  }
  sched_point(OP_CLOCK, nullptr, false);
  uint64_t now = clock_read();
  ts->tv_sec = now / 1000000000ull;
  ts->tv_nsec = now % 1000000000ull;
  return 0;
}

int nanosleep(const struct timespec* req, struct timespec* rem) {
  if (!sim_on()) { resolve_real(); return real.nanosleep(req, rem); }
  uint64_t ns = (uint64_t)req->tv_sec * 1000000000ull + req->tv_nsec;
  usim_sleep_ns(ns);
  if (rem) { rem->tv_sec = 0; rem->tv_nsec = 0; }
  return 0;
}

int clock_nanosleep(clockid_t clk, int flags, const struct timespec* req, struct timespec* rem) {
  if (!sim_on()) { resolve_real(); return real.clock_nanosleep(clk, flags, req, rem); }
  uint64_t ns = (uint64_t)req->tv_sec * 1000000000ull + req->tv_nsec;
  if (flags & TIMER_ABSTIME) {
    if (ns <= R.now_ns) { sched_point(OP_SLEEP, nullptr, false); return 0; }
    sched_point(OP_SLEEP, nullptr, false);
    block_current(S_SLEEP, nullptr, ns);
  } else {
    usim_sleep_ns(ns);
  }
  if (rem) { rem->tv_sec = 0; rem->tv_nsec = 0; }
  return 0;
}

int usleep(useconds_t us) {
  if (!sim_on()) { struct timespec t{(time_t)(us / 1000000), (long)(us % 1000000) * 1000}; resolve_real(); return real.nanosleep(&t, nullptr); }
  usim_sleep_ns((uint64_t)us * 1000);
  return 0;
}

}  // extern "C"
