// usim runtime — deterministic arena allocator with shadow memory.
// Replaces global operator new/delete. Inside a run, allocations made by sim
// threads come from a fixed-address arena that is never reused within the run;
// every instrumented access is checked against one shadow byte per 8 bytes.
#include "rt_internal.hpp"

#include <errno.h>
#include <new>
#include <sys/mman.h>

namespace rt {

uintptr_t g_arena_base = 0, g_arena_end = 0;

namespace {
constexpr uintptr_t kArenaAddr = 0x100000000000ull;   // 16 TiB: far from heap, stacks and mmap area
constexpr size_t kArenaSize = 512ull << 20;
constexpr size_t kRed = 32;  // red zone on each side (bytes)

enum Sh : uint8_t { SH_UNALLOC = 0, SH_LIVE = 1, SH_FREED = 2, SH_RED = 3, SH_DEAD = 4 };

uint8_t* g_shadow = nullptr;
size_t g_bump = 0;       // bytes used
size_t g_high = 0;       // high-water mark since last reset (for cheap reset)

struct Block { uint32_t off; uint32_t size; uint8_t state; uint8_t harness; uint8_t noleak; uint64_t id; };
MVec<Block> g_blocks;
uint64_t g_alloc_id = 0;

inline void shadow_set(size_t off, size_t n, uint8_t v) {
  memset(g_shadow + (off >> 3), v, (n + 7) >> 3);
}

Block* find_block(const void* p) {
  uintptr_t off = (uintptr_t)p - g_arena_base;
  // blocks are sorted by offset (bump allocation): binary search
  size_t lo = 0, hi = g_blocks.size();
  while (lo < hi) {
    size_t mid = (lo + hi) / 2;
    if (g_blocks[mid].off <= off) lo = mid + 1; else hi = mid;
  }
  if (!lo) return nullptr;
  Block* b = &g_blocks[lo - 1];
  if (off >= b->off && off < (uintptr_t)b->off + (b->size ? b->size : 1)) return b;
  return nullptr;
}
}  // namespace

void arena_init() {
  if (g_arena_base) return;
  void* p = mmap((void*)kArenaAddr, kArenaSize, PROT_READ | PROT_WRITE,
                 MAP_PRIVATE | MAP_ANONYMOUS | MAP_NORESERVE | MAP_FIXED_NOREPLACE, -1, 0);
  if (p != (void*)kArenaAddr) { perror("usim: arena mmap"); abort(); }
  g_shadow = (uint8_t*)mmap(nullptr, kArenaSize >> 3, PROT_READ | PROT_WRITE,
                            MAP_PRIVATE | MAP_ANONYMOUS | MAP_NORESERVE, -1, 0);
  if (g_shadow == MAP_FAILED) { perror("usim: shadow mmap"); abort(); }
  g_arena_base = kArenaAddr;
  g_arena_end = kArenaAddr + kArenaSize;
}

void arena_reset() {
  if (g_high) {
    // drop the pages: the next run sees zero pages and a zero shadow
    madvise((void*)g_arena_base, (g_high + 4095) & ~4095ull, MADV_DONTNEED);
    madvise(g_shadow, ((g_high >> 3) + 4095) & ~4095ull, MADV_DONTNEED);
  }
  g_bump = 0;
  g_high = 0;
  g_blocks.clear();
  g_alloc_id = 0;
}

void* arena_alloc(size_t n, size_t align, bool harness) {
  if (align < 16) align = 16;
  size_t start = (g_bump + kRed + align - 1) & ~(align - 1);
  size_t usable = (n + 7) & ~7ull;
  if (!usable) usable = 8;
  size_t end = start + usable + kRed;
  if (end > kArenaSize || end > 0xfffffff0u) {
    end_run_with_verdict(USIM_V_CRASH, "sim.infra", "arena exhausted");
  }
  shadow_set(g_bump, start - g_bump, SH_RED);
  shadow_set(start, usable, SH_LIVE);
  shadow_set(start + usable, kRed, SH_RED);
  g_bump = end;
  if (g_bump > g_high) g_high = g_bump;
  void* p = (void*)(g_arena_base + start);
  memset(p, 0xA5, usable);
  g_blocks.push(Block{(uint32_t)start, (uint32_t)usable, SH_LIVE, (uint8_t)harness, 0, ++g_alloc_id});
  return p;
}

bool arena_free(void* p) {
  if (!in_arena(p)) return false;
  if (!R.active) return true;  // late frees after the run: the arena is reset wholesale
  Block* b = find_block(p);
  uintptr_t off = (uintptr_t)p - g_arena_base;
  if (!b || b->off != off) {
    char msg[160];
    snprintf(msg, sizeof msg, "free of pointer %p that is not the start of an arena block", p);
    end_run_with_verdict(USIM_V_VIOLATION, "mem.bad-free", msg);
  }
  if (b->state != SH_LIVE) {
    char msg[160];
    snprintf(msg, sizeof msg, "double free of arena block #%llu (%u bytes)", (unsigned long long)b->id, b->size);
    end_run_with_verdict(USIM_V_VIOLATION, "mem.double-free", msg);
  }
  if (fd_on_arena_free) fd_on_arena_free(p, b->size);
  b->state = SH_FREED;
  shadow_set(b->off, b->size, SH_FREED);
  memset(p, 0xDD, b->size);
  return true;
}

void arena_check(const void* addr, size_t n, bool is_write) {
  uintptr_t a = (uintptr_t)addr;
  if (a - g_arena_base >= kArenaSize) return;
  Thread* me = tl_self;
  if (me && me->np) return;  // harness bookkeeping
  size_t off = a - g_arena_base;
  size_t g0 = off >> 3, g1 = (off + (n ? n : 1) - 1) >> 3;
  for (size_t g = g0; g <= g1; ++g) {
    uint8_t s = g_shadow[g];
    if (s == SH_LIVE) continue;
    const char* what = s == SH_FREED ? "freed" : s == SH_RED ? "red-zone" : s == SH_DEAD ? "dead (completed/destroyed)" : "unallocated";
    Block* b = find_block((void*)(g_arena_base + (g << 3)));
    char msg[700], site[400];
    if (me) ++me->in_rt;
    library_site(site, sizeof site);
    snprintf(msg, sizeof msg, "%s of %zu bytes at arena+0x%zx hits %s memory (block #%llu, %u bytes, offset %+ld) site=[%s]",
             is_write ? "write" : "read", n, off, what, b ? (unsigned long long)b->id : 0ull, b ? b->size : 0,
             b ? (long)(off - b->off) : 0l, site);
    end_run_with_verdict(USIM_V_VIOLATION, s == SH_RED || s == SH_UNALLOC ? "mem.out-of-bounds" : "mem.touch-after-free", msg);
  }
}

size_t arena_live_library_blocks(char* desc, size_t dn) {
  size_t c = 0, o = 0;
  for (size_t i = 0; i < g_blocks.size(); ++i) {
    Block& b = g_blocks[i];
    if (b.state == SH_LIVE && !b.harness && !b.noleak) {
      ++c;
      if (desc && o + 40 < dn) o += snprintf(desc + o, dn - o, "#%llu(%uB) ", (unsigned long long)b.id, b.size);
    }
  }
  return c;
}

}  // namespace rt

using namespace rt;

extern "C" {

void* usim_alloc(size_t n) {
  if (!sim_thread()) return malloc(n);
  RtScope g(tl_self);
  return arena_alloc(n, 16, false);
}
void usim_free(void* p) {
  if (!p) return;
  RtScope g(tl_self);
  if (!arena_free(p)) free(p);
}
void usim_mark_dead(void* p, size_t n) {
  if (!in_arena(p)) return;
  size_t off = (uintptr_t)p - g_arena_base;
  // only whole granules
  size_t s = (off + 7) & ~7ull, e = (off + n) & ~7ull;
  if (e > s) memset(g_shadow + (s >> 3), SH_DEAD, (e - s) >> 3);
}
void usim_mark_live(void* p, size_t n) {
  if (!in_arena(p)) return;
  size_t off = (uintptr_t)p - g_arena_base;
  size_t s = (off + 7) & ~7ull, e = (off + n) & ~7ull;
  if (e > s) memset(g_shadow + (s >> 3), SH_LIVE, (e - s) >> 3);
}
int usim_in_arena(const void* p) { return in_arena(p); }
size_t usim_live_blocks(void) { return arena_live_library_blocks(nullptr, 0); }
void usim_expect_leak(void* p) {
  if (!in_arena(p)) return;
  if (Block* b = find_block(p)) b->noleak = 1;
}

}  // extern "C"

// ------------------------------------------------------------------ global operator new / delete
namespace {
inline void* do_new(size_t n, size_t align, bool nothrow) {
  Thread* t = tl_self;
  if (t && R.active) {
    bool harness = t->np > 0 || t->in_rt > 0;
    if (harness) {
      void* p = align > 16 ? aligned_alloc(align, (n + align - 1) & ~(align - 1)) : malloc(n ? n : 1);
      if (!p) abort();
      return p;
    }
    if (t->alloc_window && fault(USIM_F_ALLOC)) {
      if (nothrow) return nullptr;
      throw std::bad_alloc();
    }
    RtScope g(t);
    return arena_alloc(n, align, false);
  }
  void* p = align > 16 ? aligned_alloc(align, (n + align - 1) & ~(align - 1)) : malloc(n ? n : 1);
  if (!p) { if (nothrow) return nullptr; throw std::bad_alloc(); }
  return p;
}
inline void do_delete(void* p) {
  if (!p) return;
  if (in_arena(p)) {
    RtScope g(tl_self);
    arena_free(p);
    return;
  }
  free(p);
}
}  // namespace

void* operator new(size_t n) { return do_new(n, 16, false); }
void* operator new[](size_t n) { return do_new(n, 16, false); }
void* operator new(size_t n, const std::nothrow_t&) noexcept { return do_new(n, 16, true); }
void* operator new[](size_t n, const std::nothrow_t&) noexcept { return do_new(n, 16, true); }
void* operator new(size_t n, std::align_val_t a) { return do_new(n, (size_t)a, false); }
void* operator new[](size_t n, std::align_val_t a) { return do_new(n, (size_t)a, false); }
void* operator new(size_t n, std::align_val_t a, const std::nothrow_t&) noexcept { return do_new(n, (size_t)a, true); }
void* operator new[](size_t n, std::align_val_t a, const std::nothrow_t&) noexcept { return do_new(n, (size_t)a, true); }
void operator delete(void* p) noexcept { do_delete(p); }
void operator delete[](void* p) noexcept { do_delete(p); }
void operator delete(void* p, size_t) noexcept { do_delete(p); }
void operator delete[](void* p, size_t) noexcept { do_delete(p); }
void operator delete(void* p, std::align_val_t) noexcept { do_delete(p); }
void operator delete[](void* p, std::align_val_t) noexcept { do_delete(p); }
void operator delete(void* p, size_t, std::align_val_t) noexcept { do_delete(p); }
void operator delete[](void* p, size_t, std::align_val_t) noexcept { do_delete(p); }
void operator delete(void* p, const std::nothrow_t&) noexcept { do_delete(p); }
void operator delete[](void* p, const std::nothrow_t&) noexcept { do_delete(p); }
