// usim runtime — run life-cycle, worker protocol, replay files.
#include "rt_internal.hpp"

#include <errno.h>
#include <fcntl.h>
#include <sched.h>
#include <sys/stat.h>
#include <unistd.h>

namespace rt {

void release_all_carriers();
void* trampoline_impl(Thread*);
extern "C" void* usim_trampoline(void*);

// ---------------------------------------------------------------- options
struct Opts {
  const char* workload = nullptr;
  uint64_t seed = 1;
  uint64_t first = 0, stride = 1, count = 0;
  double seconds = 0;
  const char* replay = nullptr;
  const char* replay_dir = "replays";
  const char* emit = nullptr;       // write the replay file of the (single) run here even if OK
  int samples = 3;
  uint64_t step_cap = 200000;
  int force_strategy = -1;
  int cpu = -1;
  struct KV { const char* k; const char* v; };
  MVec<KV> params;
  char* replay_params = nullptr;
} O;

static const usim_workload* g_table = nullptr;
static int g_ntable = 0;
static const usim_workload* g_wl = nullptr;

static const char* kFaultNames[USIM_F_COUNT] = {
    "cas_weak_spurious", "cond_spurious_wakeup", "clock_jitter", "bad_alloc", "harness_throw",
    "timer_first", "syscall_error", "stop_registration_throw", "kernel_delay"};
static const char* kVerdictNames[] = {"ok", "violation", "deadlock", "livelock", "crash"};

// ---------------------------------------------------------------- JSON helpers
static void json_str(FILE* f, const char* s) {
  fputc('"', f);
  for (; *s; ++s) {
    unsigned char c = (unsigned char)*s;
    if (c == '"' || c == '\\') { fputc('\\', f); fputc(c, f); }
    else if (c == '\n') fputs("\\n", f);
    else if (c < 0x20) fprintf(f, "\\u%04x", c);
    else fputc(c, f);
  }
  fputc('"', f);
}

static void write_replay(FILE* f) {
  fprintf(f, "{\"format\":\"usim-replay-1\",\"workload\":");
  json_str(f, g_wl->name);
  fprintf(f, ",\"seed\":%llu,\"run\":%llu", (unsigned long long)O.seed, (unsigned long long)R.run_index);
  fprintf(f, ",\"params\":\"");
  for (size_t i = 0; i < O.params.size(); ++i) fprintf(f, "%s%s=%s", i ? "," : "", O.params[i].k, O.params[i].v);
  fprintf(f, "\",\"step_cap\":%llu", (unsigned long long)R.step_cap);
  fprintf(f, ",\"strategy\":%d,\"verdict\":\"%s\",\"oracle\":", R.strategy, kVerdictNames[R.verdict]);
  json_str(f, R.oracle);
  fprintf(f, ",\"message\":");
  json_str(f, R.message);
  fprintf(f, ",\"trace_hash\":\"%016llx\",\"steps\":%llu,\"threads\":%d,\"sim_ns\":%llu",
          (unsigned long long)R.hash, (unsigned long long)R.step, R.nthreads, (unsigned long long)R.now_ns);
  fprintf(f, ",\"plan\":");
  json_str(f, R.sample);
  fprintf(f, ",\n\"tape\":[");
  size_t nt = R.replay ? (R.tape_pos < R.tape.size() ? R.tape_pos : R.tape.size()) : R.tape.size();
  for (size_t i = 0; i < nt; ++i) fprintf(f, "%s%llu", i ? "," : "", (unsigned long long)R.tape[i]);
  fprintf(f, "],\n\"decisions\":[");
  size_t nd = R.replay ? R.dec_pos : R.decisions.size();
  bool firstd = true;
  for (size_t i = 0; i < nd && i < R.decisions.size(); ++i) {
    fprintf(f, "%s[%llu,%d]", firstd ? "" : ",", (unsigned long long)R.decisions[i].step, R.decisions[i].tid);
    firstd = false;
  }
  fprintf(f, "],\n\"faults\":[");
  bool firstf = true;
  for (size_t i = 0; i < R.faults.size(); ++i) {
    // in replay keep only faults that could still fire (ordinal reached)
    FaultRec& fr = R.faults[i];
    if (R.replay && fr.kind < USIM_F_COUNT && fr.ordinal >= R.fault_ord[fr.kind]) continue;
    if (R.replay && fr.kind >= USIM_F_COUNT && fr.ordinal >= R.choice_ord) continue;
    fprintf(f, "%s[%d,%llu,%llu]", firstf ? "" : ",", fr.kind, (unsigned long long)fr.ordinal, (unsigned long long)fr.value);
    firstf = false;
  }
  fprintf(f, "]}\n");
}

// minimal scanner for our own replay files
static const char* find_key(const char* s, const char* key) {
  char pat[64];
  snprintf(pat, sizeof pat, "\"%s\":", key);
  const char* p = strstr(s, pat);
  return p ? p + strlen(pat) : nullptr;
}
static char* read_file(const char* path) {
  FILE* f = fopen(path, "rb");
  if (!f) return nullptr;
  fseek(f, 0, SEEK_END);
  long n = ftell(f);
  fseek(f, 0, SEEK_SET);
  char* b = (char*)malloc(n + 1);
  if (fread(b, 1, n, f) != (size_t)n) { fclose(f); free(b); return nullptr; }
  b[n] = 0;
  fclose(f);
  return b;
}
static char* scan_string(const char* p) {
  while (*p && *p != '"') ++p;
  if (!*p) return strdup("");
  ++p;
  char* out = (char*)malloc(strlen(p) + 1);
  size_t o = 0;
  while (*p && *p != '"') {
    if (*p == '\\' && p[1]) { ++p; out[o++] = *p == 'n' ? '\n' : *p; ++p; }
    else out[o++] = *p++;
  }
  out[o] = 0;
  return out;
}

static void parse_params(char* s) {
  // "k=v,k=v"
  while (s && *s) {
    char* comma = strchr(s, ',');
    if (comma) *comma = 0;
    char* eq = strchr(s, '=');
    if (eq) { *eq = 0; O.params.push(Opts::KV{s, eq + 1}); }
    s = comma ? comma + 1 : nullptr;
  }
}

static bool load_replay(const char* path) {
  char* s = read_file(path);
  if (!s) { fprintf(stderr, "usim: cannot read replay file %s\n", path); return false; }
  if (const char* p = find_key(s, "workload")) { O.workload = scan_string(p); }
  if (const char* p = find_key(s, "seed")) O.seed = strtoull(p, nullptr, 10);
  if (const char* p = find_key(s, "run")) O.first = strtoull(p, nullptr, 10);
  if (const char* p = find_key(s, "step_cap")) O.step_cap = strtoull(p, nullptr, 10);
  if (const char* p = find_key(s, "params")) {
    // the replay's parameters win; extra command-line ones (trace=1, optrace=1) are kept
    MVec<Opts::KV> cli;
    for (size_t i = 0; i < O.params.size(); ++i) cli.push(O.params[i]);
    O.replay_params = scan_string(p);
    O.params.clear();
    parse_params(O.replay_params);
    for (size_t i = 0; i < cli.size(); ++i) {
      bool have = false;
      for (size_t j = 0; j < O.params.size(); ++j) have |= !strcmp(O.params[j].k, cli[i].k);
      if (!have) O.params.push(cli[i]);
    }
  }
  R.tape.clear(); R.decisions.clear(); R.faults.clear();
  if (const char* p = find_key(s, "tape")) {
    p = strchr(p, '[') + 1;
    while (*p && *p != ']') {
      char* e;
      unsigned long long v = strtoull(p, &e, 10);
      if (e == p) break;
      R.tape.push(v);
      p = e;
      while (*p == ',' || *p == ' ' || *p == '\n') ++p;
    }
  }
  auto parse_tuples = [&](const char* key, int arity, auto&& sink) {
    const char* p = find_key(s, key);
    if (!p) return;
    p = strchr(p, '[') + 1;
    while (*p) {
      while (*p == ',' || *p == ' ' || *p == '\n') ++p;
      if (*p != '[') break;
      ++p;
      long long v[3] = {0, 0, 0};
      for (int k = 0; k < arity; ++k) {
        char* e;
        v[k] = strtoll(p, &e, 10);
        p = e;
        while (*p == ',' || *p == ' ') ++p;
      }
      while (*p && *p != ']') ++p;
      if (*p == ']') ++p;
      sink(v);
    }
  };
  parse_tuples("decisions", 2, [&](long long* v) { R.decisions.push(Decision{(uint64_t)v[0], (int)v[1]}); });
  parse_tuples("faults", 3, [&](long long* v) { R.faults.push(FaultRec{(int)v[0], (uint64_t)v[1], (uint64_t)v[2]}); });
  free(s);
  return true;
}

// ---------------------------------------------------------------- result emission
static uint64_t g_fault_total[USIM_F_COUNT];
static MVec<Run::Probe> g_probe_total;
static uint64_t g_runs = 0, g_strat_runs[3], g_sim_ns_total = 0, g_steps_total = 0, g_nontrivial = 0;

static void print_run_line() {
  uint64_t ff = 0;
  for (int k = 0; k < USIM_F_COUNT; ++k) ff += R.fault_fired[k];
  printf("R %llu %s %016llx %llu %llu %d %llu %d %zu %zu %llu %016llx %016llx\n", (unsigned long long)R.run_index,
         kVerdictNames[R.verdict], (unsigned long long)R.hash, (unsigned long long)R.step,
         (unsigned long long)R.switches, R.nthreads, (unsigned long long)R.now_ns,
         (R.nontrivial || ff) ? 1 : 0, R.tape.size(), R.decisions.size(), (unsigned long long)ff,
         (unsigned long long)R.sem_seq, (unsigned long long)R.sem_set);
}

void end_run_with_verdict(int verdict, const char* oracle, const char* msg) {
  // Called by the sim thread that holds the baton (or from a signal handler on it).
  if (tl_self) ++tl_self->in_rt;
  R.verdict = verdict;
  snprintf(R.oracle, sizeof R.oracle, "%s", oracle);
  snprintf(R.message, sizeof R.message, "%s", msg);
  char path[512] = "";
  if (O.emit) snprintf(path, sizeof path, "%s", O.emit);
  else {
    mkdir(O.replay_dir, 0777);
    snprintf(path, sizeof path, "%s/%s-%llu-%llu.json", O.replay_dir, g_wl->name, (unsigned long long)O.seed,
             (unsigned long long)R.run_index);
  }
  if (FILE* f = fopen(path, "w")) { write_replay(f); fclose(f); }
  print_run_line();
  printf("V {\"run\":%llu,\"verdict\":\"%s\",\"oracle\":", (unsigned long long)R.run_index, kVerdictNames[verdict]);
  json_str(stdout, R.oracle);
  printf(",\"message\":");
  json_str(stdout, R.message);
  printf(",\"hash\":\"%016llx\",\"replay\":", (unsigned long long)R.hash);
  json_str(stdout, path);
  printf(",\"plan\":");
  json_str(stdout, R.sample);
  printf("}\n");
  fflush(stdout);
  _exit(3);
}

// ---------------------------------------------------------------- one run

static void configure_run(uint64_t run_index) {
  // keep tape/decisions/faults when replaying
  R.active = false;
  R.run_index = run_index;
  uint64_t x = O.seed * 0x9e3779b97f4a7c15ull ^ (run_index + 0x1234567);
  uint64_t rs = Rng::splitmix(x);
  R.seed = rs;
  R.rng_sched.seed(rs ^ 0x5ced);
  R.rng_fault.seed(rs ^ 0xfa017);
  R.rng_tape.seed(rs ^ 0x7a9e);
  if (!R.replay) { R.tape.clear(); R.decisions.clear(); R.faults.clear(); }
  R.tape_pos = 0; R.dec_pos = 0;
  R.nthreads = 0; R.cur = -1; R.finished = 0;
  R.step = 0; R.switches = 0; R.change_counter = 1; R.seq = 0; R.hash = 0xcbf29ce484222325ull;
  R.sem_seq = 0; R.sem_set = 0; R.spin_last_change = 0; R.spin_resumes = 0; R.choice_ord = 0; R.picks = 0; R.plain_since_step = 0;
  R.step_cap = O.step_cap;
  R.now_ns = 1000000000ull;  // start at t = 1 s so that "past" deadlines exist
  R.timers.clear(); R.timer_seq = 0;
  memset(R.fault_ord, 0, sizeof R.fault_ord);
  memset(R.fault_fired, 0, sizeof R.fault_fired);
  memset(R.fault_rate, 0, sizeof R.fault_rate);
  R.alloc_window = 0;
  R.verdict = USIM_V_OK; R.oracle[0] = 0; R.message[0] = 0; R.nontrivial = false; R.sample[0] = 0;
  R.probes.clear();
  R.done_futex = 0;
  memset(g_objtab, 0, sizeof g_objtab);
  // swarm: scheduling strategy
  Rng cfg; cfg.seed(rs ^ 0xc0f19);
  uint64_t s = cfg.below(10);
  if (O.force_strategy >= 0) s = O.force_strategy == STRAT_RW ? 0 : O.force_strategy == STRAT_PCT ? 6 : 9;
  if (s < 6) {
    R.strategy = STRAT_RW;
    static const unsigned ps[] = {20, 100, 300, 600};
    R.rw_permille = ps[cfg.below(4)];
  } else if (s < 9) {
    R.strategy = STRAT_PCT;
    R.pct_d = (int)cfg.below(4);
    static const uint64_t hz[] = {50, 200, 1000, 5000};
    uint64_t h = hz[cfg.below(4)];
    for (int k = 0; k < 4; ++k) R.pct_points[k] = 1 + cfg.below(h);
    R.pct_low = -1;
  } else {
    R.strategy = STRAT_NP;
  }
  R.timer_first = false;  // the stalled-thread fault is enabled by workloads (usim_fault_rate)
  shim_reset();
  arena_reset();
  if (fdlayer_reset) fdlayer_reset();
  if (uring_reset) uring_reset();
}

static void body_tramp(void*) {
  g_wl->body(nullptr);
}

static void run_one(uint64_t run_index) {
  configure_run(run_index);
  Thread& t = R.thr[0];
  t = Thread{};
  t.id = 0;
  t.body = body_tramp;
  t.st = S_RUNNABLE;
  t.prio = 500000;
  R.nthreads = 1;
  R.cur = 0;
  R.active = true;
  pthread_attr_t a;
  pthread_attr_init(&a);
  pthread_attr_setstacksize(&a, 4 << 20);
  if (real.pthread_create(&t.real, &a, usim_trampoline, &t)) { perror("pthread_create"); abort(); }
  pthread_attr_destroy(&a);
  __atomic_store_n(&t.go, 1, __ATOMIC_SEQ_CST);
  futex_wake(&t.go, 1);
  {
    uint64_t last_step = ~0ull, last_plain = ~0ull;
    int idle_s = 0;
    while (!__atomic_load_n(&R.done_futex, __ATOMIC_SEQ_CST)) {
      struct timespec to{1, 0};
      raw_syscall6(202 /*SYS_futex*/, (long)&R.done_futex, 128 /*FUTEX_WAIT_PRIVATE*/, 0, (long)&to, 0, 0);
      if (R.step == last_step && R.plain_since_step == last_plain) {
        if (++idle_s >= 20) {
          fprintf(stderr, "usim: watchdog: no scheduling point for 20 s of real time in run %llu (real blocking inside a run)\n", (unsigned long long)R.run_index);
          _exit(4);
        }
      } else { idle_s = 0; last_step = R.step; last_plain = R.plain_since_step; }
    }
  }
  // all sim threads are finished and parked in their trampolines
  int n = R.nthreads;
  // end-of-run checks (still "active" so that reports work; executed on the driver thread)
  if (fdlayer_end_of_run) fdlayer_end_of_run();
  if (uring_end_of_run) uring_end_of_run();
  char desc[400];
  size_t leaks = arena_live_library_blocks(desc, sizeof desc);
  R.active = false;
  release_all_carriers();
  for (int i = 0; i < n; ++i) real.pthread_join(R.thr[i].real, nullptr);
  if (leaks) {
    // report as a violation of this run (worker exits)
    R.active = true;
    char msg[600];
    snprintf(msg, sizeof msg, "%zu arena block(s) still allocated at end of run: %s", leaks, desc);
    end_run_with_verdict(USIM_V_VIOLATION, "mem.leak", msg);
  }
}

static double real_now() {
  struct timespec ts;
  real.clock_gettime(CLOCK_MONOTONIC, &ts);
  return ts.tv_sec + ts.tv_nsec * 1e-9;
}

static void accumulate() {
  g_runs++;
  g_strat_runs[R.strategy]++;
  g_sim_ns_total += R.now_ns - 1000000000ull;
  g_steps_total += R.step;
  uint64_t ff = 0;
  for (int k = 0; k < USIM_F_COUNT; ++k) { g_fault_total[k] += R.fault_fired[k]; ff += R.fault_fired[k]; }
  if (R.nontrivial || ff) g_nontrivial++;
  for (size_t i = 0; i < R.probes.size(); ++i) {
    bool found = false;
    for (size_t k = 0; k < g_probe_total.size(); ++k)
      if (!strcmp(g_probe_total[k].name, R.probes[i].name)) { g_probe_total[k].n += R.probes[i].n; found = true; break; }
    if (!found) g_probe_total.push(R.probes[i]);
  }
}

static void print_summary(double wall) {
  printf("S {\"runs\":%llu,\"wall_s\":%.3f,\"steps\":%llu,\"sim_ns\":%llu,\"nontrivial\":%llu,\"strategies\":{\"rw\":%llu,\"pct\":%llu,\"np\":%llu},\"faults\":{",
         (unsigned long long)g_runs, wall, (unsigned long long)g_steps_total, (unsigned long long)g_sim_ns_total,
         (unsigned long long)g_nontrivial, (unsigned long long)g_strat_runs[0], (unsigned long long)g_strat_runs[1],
         (unsigned long long)g_strat_runs[2]);
  for (int k = 0; k < USIM_F_COUNT; ++k) printf("%s\"%s\":%llu", k ? "," : "", kFaultNames[k], (unsigned long long)g_fault_total[k]);
  printf("},\"probes\":{");
  for (size_t k = 0; k < g_probe_total.size(); ++k) {
    if (k) printf(",");
    json_str(stdout, g_probe_total[k].name);
    printf(":%llu", (unsigned long long)g_probe_total[k].n);
  }
  printf("}}\n");
  fflush(stdout);
}

}  // namespace rt

using namespace rt;

extern "C" {

const char* usim_param(const char* key, const char* dflt) {
  for (size_t i = 0; i < O.params.size(); ++i)
    if (!strcmp(O.params[i].k, key)) return O.params[i].v;
  return dflt;
}
long usim_param_int(const char* key, long dflt) {
  const char* v = usim_param(key, nullptr);
  return v ? strtol(v, nullptr, 10) : dflt;
}

int usim_main(int argc, char** argv, const usim_workload* table, int n) {
  g_table = table;
  g_ntable = n;
  resolve_real();
  setvbuf(stdout, nullptr, _IOLBF, 0);
  for (int i = 1; i < argc; ++i) {
    auto arg = [&](const char* name) -> const char* {
      if (!strcmp(argv[i], name) && i + 1 < argc) return argv[++i];
      return nullptr;
    };
    const char* v;
    if ((v = arg("--workload"))) O.workload = v;
    else if ((v = arg("--seed"))) O.seed = strtoull(v, nullptr, 10);
    else if ((v = arg("--first"))) O.first = strtoull(v, nullptr, 10);
    else if ((v = arg("--stride"))) O.stride = strtoull(v, nullptr, 10);
    else if ((v = arg("--count"))) O.count = strtoull(v, nullptr, 10);
    else if ((v = arg("--seconds"))) O.seconds = atof(v);
    else if ((v = arg("--replay"))) O.replay = v;
    else if ((v = arg("--replay-dir"))) O.replay_dir = v;
    else if ((v = arg("--emit"))) O.emit = v;
    else if ((v = arg("--samples"))) O.samples = atoi(v);
    else if ((v = arg("--step-cap"))) O.step_cap = strtoull(v, nullptr, 10);
    else if ((v = arg("--strategy"))) O.force_strategy = !strcmp(v, "rw") ? STRAT_RW : !strcmp(v, "pct") ? STRAT_PCT : STRAT_NP;
    else if ((v = arg("--cpu"))) O.cpu = atoi(v);
    else if ((v = arg("--param"))) { parse_params(strdup(v)); }
    else if (!strcmp(argv[i], "--list")) { for (int k = 0; k < n; ++k) printf("%s\n", table[k].name); return 0; }
    else { fprintf(stderr, "usim: unknown argument %s\n", argv[i]); return 2; }
  }
  if (O.replay) {
    R.replay = true;
    if (!load_replay(O.replay)) return 2;
  }
  if (!O.workload) { if (n == 1) O.workload = table[0].name; else { fprintf(stderr, "usim: --workload required\n"); return 2; } }
  for (int k = 0; k < n; ++k)
    if (!strcmp(table[k].name, O.workload)) g_wl = &table[k];
  if (!g_wl) { fprintf(stderr, "usim: unknown workload %s\n", O.workload); return 2; }
  {
    // One sim thread runs at a time: keep all carriers on one core so that baton
    // hand-offs are same-CPU futex wake-ups (measured 6x faster than cross-core).
    int cpu = O.cpu >= 0 ? O.cpu : sched_getcpu();
    cpu_set_t set;
    CPU_ZERO(&set);
    if (cpu >= 0) { CPU_SET(cpu, &set); sched_setaffinity(0, sizeof set, &set); }
  }
  arena_init();
  crash_install();
  double t0 = real_now();
  if (O.replay) {
    run_one(O.first);
    print_run_line();
    if (R.sample[0]) { printf("P %llu ", (unsigned long long)R.run_index); json_str(stdout, R.sample); printf("\n"); }
    if (O.emit) if (FILE* f = fopen(O.emit, "w")) { write_replay(f); fclose(f); }
    fflush(stdout);
    return 0;
  }
  uint64_t done = 0;
  for (uint64_t i = O.first;; i += O.stride) {
    if (O.count && done >= O.count) break;
    if (O.seconds > 0 && (done & 7) == 0 && real_now() - t0 >= O.seconds) break;
    if (!O.count && O.seconds <= 0) break;
    run_one(i);
    print_run_line();
    if ((int)done < O.samples && R.sample[0]) { printf("P %llu ", (unsigned long long)i); json_str(stdout, R.sample); printf("\n"); }
    accumulate();
    if (O.emit && O.count == 1) if (FILE* f = fopen(O.emit, "w")) { write_replay(f); fclose(f); }
    ++done;
  }
  print_summary(real_now() - t0);
  return 0;
}

}  // extern "C"
