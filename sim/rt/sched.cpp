// usim runtime — scheduler: real threads under one baton, seeded strategies,
// record/replay of decisions, simulated clock, spin detection.
#include "rt_internal.hpp"

#include <dlfcn.h>
#include <errno.h>
#include <linux/futex.h>
#include <sys/syscall.h>
#include <unistd.h>

namespace rt {

Run R;
__thread Thread* tl_self = nullptr;
Real real;

const char* st_name(St s) {
  switch (s) {
    case S_FREE: return "free";
    case S_RUNNABLE: return "runnable";
    case S_BLK_MUTEX: return "blocked-mutex";
    case S_BLK_COND: return "blocked-cond";
    case S_BLK_JOIN: return "blocked-join";
    case S_BLK_ONCE: return "blocked-once";
    case S_SLEEP: return "sleeping";
    case S_BLK_SPIN: return "spinning";
    case S_BLK_KERNEL: return "blocked-kernel";
    case S_BLK_PRED: return "waiting-pred";
    case S_FINISHED: return "finished";
  }
  return "?";
}

// ------------------------------------------------------------------ raw futex
long raw_syscall6(long n, long a, long b, long c, long d, long e, long f) {
  long ret;
  register long r10 __asm__("r10") = d;
  register long r8 __asm__("r8") = e;
  register long r9 __asm__("r9") = f;
  __asm__ volatile("syscall"
                   : "=a"(ret)
                   : "a"(n), "D"(a), "S"(b), "d"(c), "r"(r10), "r"(r8), "r"(r9)
                   : "rcx", "r11", "memory");
  return ret;
}
void futex_wait(volatile int* addr, int val) {
  raw_syscall6(SYS_futex, (long)addr, FUTEX_WAIT_PRIVATE, val, 0, 0, 0);
}
void futex_wake(volatile int* addr, int n) {
  raw_syscall6(SYS_futex, (long)addr, FUTEX_WAKE_PRIVATE, n, 0, 0, 0);
}

void resolve_real() {
  static bool done = false;
  if (done) return;
  done = true;
#define RS(name) real.name = (decltype(real.name))dlsym(RTLD_NEXT, #name)
  RS(pthread_create); RS(pthread_join); RS(pthread_detach);
  RS(pthread_mutex_lock); RS(pthread_mutex_trylock); RS(pthread_mutex_unlock);
  RS(pthread_cond_wait); RS(pthread_cond_timedwait); RS(pthread_cond_clockwait);
  RS(pthread_cond_signal); RS(pthread_cond_broadcast); RS(pthread_once);
  RS(sched_yield); RS(clock_gettime); RS(nanosleep); RS(clock_nanosleep);
#undef RS
}

// ------------------------------------------------------------------ hashing
void hash_fold(uint64_t v) { R.hash = (R.hash ^ v) * 0x100000001b3ull; }

// cheap "two threads touched a common sync object" detector
ObjEnt g_objtab[1024];
static void note_obj(const void* obj, int tid) {
  if (!obj || R.nontrivial) return;
  uintptr_t a = (uintptr_t)obj;
  size_t h = (a >> 3) * 0x9e3779b97f4a7c15ull >> 54;
  for (int k = 0; k < 8; ++k) {
    auto& e = g_objtab[(h + k) & 1023];
    if (e.a == a || e.a == 0) {
      e.a = a;
      e.mask |= 1ull << (tid & 63);
      if (e.mask & (e.mask - 1)) R.nontrivial = true;
      return;
    }
  }
}

// ------------------------------------------------------------------ clock
static bool earliest_deadline(uint64_t* out) {
  bool any = false;
  uint64_t best = ~0ull;
  for (int i = 0; i < R.nthreads; ++i) {
    Thread& t = R.thr[i];
    if (t.deadline && (t.st == S_BLK_COND || t.st == S_SLEEP || t.st == S_BLK_KERNEL || t.st == S_BLK_PRED)) {
      any = true;
      if (t.deadline < best) best = t.deadline;
    }
  }
  for (size_t i = 0; i < R.timers.size(); ++i)
    if (R.timers[i].armed) {
      any = true;
      if (R.timers[i].deadline < best) best = R.timers[i].deadline;
    }
  *out = best;
  return any;
}

void make_runnable(Thread* t) {
  t->st = S_RUNNABLE;
  t->wait_obj = nullptr;
  t->deadline = 0;
  t->yielded = false;
}

static void fire_due() {
  for (int i = 0; i < R.nthreads; ++i) {
    Thread& t = R.thr[i];
    if (t.deadline && t.deadline <= R.now_ns &&
        (t.st == S_BLK_COND || t.st == S_SLEEP || t.st == S_BLK_KERNEL || t.st == S_BLK_PRED)) {
      t.timed_out = true;
      make_runnable(&t);
    }
  }
  // timers may add timers while firing: iterate by index, in (deadline, seq) order
  for (;;) {
    int best = -1;
    for (size_t i = 0; i < R.timers.size(); ++i) {
      TimerEntry& e = R.timers[i];
      if (e.armed && e.deadline <= R.now_ns &&
          (best < 0 || e.deadline < R.timers[best].deadline ||
           (e.deadline == R.timers[best].deadline && e.seq < R.timers[best].seq)))
        best = (int)i;
    }
    if (best < 0) break;
    TimerEntry e = R.timers[best];
    R.timers[best].armed = false;
    e.fire(e.arg);
  }
  // compact
  size_t w = 0;
  for (size_t i = 0; i < R.timers.size(); ++i)
    if (R.timers[i].armed) R.timers[w++] = R.timers[i];
  R.timers.n = w;
}

static bool advance_clock() {
  uint64_t d;
  if (!earliest_deadline(&d)) return false;
  if (d > R.now_ns) R.now_ns = d;
  hash_fold(0xC10C ^ R.now_ns);
  fire_due();
  return true;
}

uint64_t clock_read() {
  R.now_ns += 1000;
  uint64_t j = 0;
  if (fault(USIM_F_CLOCK_JITTER, &j)) R.now_ns += j;
  return R.now_ns;
}

uint64_t timer_add(uint64_t deadline, void (*fire)(void*), void* arg) {
  TimerEntry e{deadline, ++R.timer_seq, fire, arg, true};
  R.timers.push(e);
  return e.seq;
}
void timer_cancel_arg(void* arg) {
  for (size_t i = 0; i < R.timers.size(); ++i)
    if (R.timers[i].arg == arg) R.timers[i].armed = false;
}

// ------------------------------------------------------------------ faults / choices
static bool fault_lookup(int kind, uint64_t ord, uint64_t* value) {
  for (size_t i = 0; i < R.faults.size(); ++i)
    if (R.faults[i].kind == kind && R.faults[i].ordinal == ord) {
      if (value) *value = R.faults[i].value;
      return true;
    }
  return false;
}

bool fault(int kind, uint64_t* value) {
  if (!R.active) return false;
  uint64_t ord = R.fault_ord[kind]++;
  if (R.replay) {
    if (fault_lookup(kind, ord, value)) { R.fault_fired[kind]++; return true; }
    return false;
  }
  unsigned rate = R.fault_rate[kind];
  if (!rate) return false;
  if (R.rng_fault.below(1000) >= rate) return false;
  uint64_t v = 0;
  if (kind == USIM_F_CLOCK_JITTER) v = 1000 * (1 + R.rng_fault.below(50));
  if (value) *value = v;
  R.faults.push(FaultRec{kind, ord, v});
  R.fault_fired[kind]++;
  return true;
}

constexpr int kChoiceKind = 100;
int choose(int n) {
  if (n <= 1 || !R.active) return 0;
  uint64_t ord = R.choice_ord++;
  if (R.replay) {
    uint64_t v = 0;
    if (fault_lookup(kChoiceKind, ord, &v)) return (int)(v % (uint64_t)n);
    return 0;
  }
  // biased to FIFO (0) but every alternative reachable
  int v = R.rng_sched.below(3) ? 0 : (int)R.rng_sched.below(n);
  if (v) R.faults.push(FaultRec{kChoiceKind, ord, (uint64_t)v});
  return v;
}

// ------------------------------------------------------------------ baton
static void park(Thread* me) {
  while (!__atomic_load_n(&me->go, __ATOMIC_SEQ_CST)) futex_wait(&me->go, 0);
  __atomic_store_n(&me->go, 0, __ATOMIC_SEQ_CST);
}
static void hand_to(int next) {
  Thread& n = R.thr[next];
  R.cur = next;
  R.switches++;
  __atomic_store_n(&n.go, 1, __ATOMIC_SEQ_CST);
  futex_wake(&n.go, 1);
}

static bool is_yielded(const Thread& t) {
  return t.yielded && t.yield_change == R.change_counter;
}

static bool enabled(Thread& t) {
  if (t.st == S_RUNNABLE) return true;
  if (t.st == S_BLK_PRED) return t.pred(t.pred_arg) != 0;
  if (t.st == S_BLK_SPIN) return R.step - t.last_run > 64;  // spin block expires
  return false;
}

// Returns the thread to run next, or -1 (deadlock).
static int pick(Thread* me) {
  ++R.picks;  // decisions are keyed by the ordinal of the pick() call (several may share one step)
  for (int guard = 0; guard < 100000; ++guard) {
    int A[kMaxThreads], B[kMaxThreads], na = 0, nb = 0;
    bool me_ok = false;
    for (int i = 0; i < R.nthreads; ++i) {
      Thread& t = R.thr[i];
      if (!enabled(t)) continue;
      if (&t == me) me_ok = true;
      if (is_yielded(t)) B[nb++] = i; else A[na++] = i;
    }
    if (na == 0) {
      // nothing but yielders (or nothing at all): let time pass if anybody waits for it
      if (advance_clock()) continue;
      if (nb == 0) {
        // resume spinners as a last resort
        bool any = false;
        if (R.spin_last_change != R.change_counter) { R.spin_last_change = R.change_counter; R.spin_resumes = 0; }
        if (R.spin_resumes < 64) {
          for (int i = 0; i < R.nthreads; ++i)
            if (R.thr[i].st == S_BLK_SPIN) { make_runnable(&R.thr[i]); R.thr[i].spin_n = 0; any = true; }
          if (any) { ++R.spin_resumes; continue; }
        }
        return -1;
      }
    }
    // default choice
    auto oldest = [&](int* v, int n) {
      int best = v[0];
      for (int k = 1; k < n; ++k) {
        Thread &a = R.thr[v[k]], &b = R.thr[best];
        if (a.last_run < b.last_run || (a.last_run == b.last_run && a.id < b.id)) best = v[k];
      }
      return best;
    };
    int dflt;
    if (me_ok && !is_yielded(*me)) dflt = me->id;
    else dflt = na ? oldest(A, na) : oldest(B, nb);

    int choice = dflt;
    if (R.replay) {
      while (R.dec_pos < R.decisions.size() && R.decisions[R.dec_pos].step < R.picks) ++R.dec_pos;
      if (R.dec_pos < R.decisions.size() && R.decisions[R.dec_pos].step == R.picks) {
        int tid = R.decisions[R.dec_pos++].tid;
        bool ok = false;
        for (int k = 0; k < na; ++k) ok |= A[k] == tid;
        for (int k = 0; k < nb; ++k) ok |= B[k] == tid;
        if (ok) choice = tid;
      }
    } else {
      int* pool = na ? A : B;
      int npool = na ? na : nb;
      switch (R.strategy) {
        case STRAT_RW: {
          bool must = !(me_ok && !is_yielded(*me));
          if (npool > 1 || must) {
            if (must) {
              choice = pool[R.rng_sched.below(npool)];
            } else if (R.rng_sched.below(1000) < R.rw_permille) {
              // uniform among the others
              int k = (int)R.rng_sched.below(npool - 1);
              int idx = 0;
              for (int q = 0; q < npool; ++q) {
                if (pool[q] == me->id) continue;
                if (idx++ == k) { choice = pool[q]; break; }
              }
            }
          }
          break;
        }
        case STRAT_PCT: {
          for (int k = 0; k < R.pct_d; ++k)
            if (R.pct_points[k] == R.picks && me_ok) me->prio = R.pct_low--;
          int best = pool[0];
          for (int k = 1; k < npool; ++k)
            if (R.thr[pool[k]].prio > R.thr[best].prio) best = pool[k];
          choice = best;
          break;
        }
        default: break;
      }
      if (choice != dflt) R.decisions.push(Decision{R.picks, choice});
    }
    return choice;
  }
  return -1;
}

static void report_deadlock() {
  char buf[1800];
  describe_threads(buf, sizeof buf);
  end_run_with_verdict(USIM_V_DEADLOCK, "sim.deadlock", buf);
}

void describe_threads(char* buf, size_t n) {
  size_t o = 0;
  for (int i = 0; i < R.nthreads && o + 80 < n; ++i) {
    Thread& t = R.thr[i];
    o += snprintf(buf + o, n - o, "T%d:%s%s ", t.id, st_name(t.st), t.deadline ? "(timed)" : "");
  }
  if (n) buf[o < n ? o : n - 1] = 0;
}

static void after_resume(Thread* me) {
  me->yielded = false;
}

void sched_point(Op op, const void* obj, bool changes_state) {
  Thread* me = tl_self;
  RtScope g(me);
  if (me->np) {  // harness bookkeeping: indivisible, invisible
    if (changes_state) R.change_counter++;
    return;
  }
  R.step++;
  R.plain_since_step = 0;
  me->steps++;
  hash_fold((uint64_t)me->id * 131 + op);
  note_obj(obj, me->id);
  if (changes_state) R.change_counter++;
  if (R.step > R.step_cap) {
    char buf[1800];
    describe_threads(buf, sizeof buf);
    end_run_with_verdict(USIM_V_LIVELOCK, "sim.livelock", buf);
  }
  if (R.fault_rate[USIM_F_TIMER_FIRST] || (R.replay && R.faults.size())) {
    uint64_t d;
    if (earliest_deadline(&d) && fault(USIM_F_TIMER_FIRST)) advance_clock();
  }
  int next = pick(me);
  me->last_run = R.step;
  if (next != me->id && next >= 0) {
    hand_to(next);
    park(me);
    after_resume(me);
  }
}

void block_current(St st, const void* obj, uint64_t deadline) {
  Thread* me = tl_self;
  RtScope g(me);
  me->st = st;
  me->wait_obj = obj;
  me->deadline = deadline;
  me->timed_out = false;
  me->last_run = R.step;
  int next = pick(me);  // may advance the clock and thereby re-enable `me`
  if (next < 0) report_deadlock();
  if (next != me->id) {
    hand_to(next);
    park(me);
  }
  // Whoever picked us did so because enabled(me) held (runnable, predicate true, spin expiry).
  if (me->st != S_RUNNABLE) make_runnable(me);
  after_resume(me);
}

void sched_pass_from_finished(Thread* me) {
  RtScope g(me);
  int next = pick(me);
  if (next < 0) report_deadlock();
  hand_to(next);
}

void wake_kernel_waiters() {
  for (int i = 0; i < R.nthreads; ++i)
    if (R.thr[i].st == S_BLK_KERNEL) make_runnable(&R.thr[i]);
}

// ------------------------------------------------------------------ spin detection
void note_write(const void* addr) {
  uintptr_t w = (uintptr_t)addr & ~7ull;
  for (int i = 0; i < R.nthreads; ++i) {
    Thread& t = R.thr[i];
    if (t.st != S_BLK_SPIN) continue;
    for (int k = 0; k < t.nwatch; ++k)
      if ((t.watch_addr[k] & ~7ull) == w) { make_runnable(&t); t.spin_n = 0; t.nwatch = 0; break; }
  }
}
void spin_note_progress() {
  Thread* me = tl_self;
  me->spin_n = 0;
  me->nwatch = 0;
}
void spin_note_poll(const void* addr, uint64_t val) {
  Thread* me = tl_self;
  if (me->np) return;
  uintptr_t a = (uintptr_t)addr;
  int k = 0;
  for (; k < me->nwatch; ++k)
    if (me->watch_addr[k] == a) break;
  if (k < me->nwatch) {
    if (me->watch_val[k] != val) { me->watch_val[k] = val; me->spin_n = 0; return; }
    me->spin_n++;
  } else if (me->nwatch < kMaxWatch) {
    me->watch_addr[me->nwatch] = a;
    me->watch_val[me->nwatch] = val;
    me->nwatch++;
    me->spin_n++;
  } else {
    me->nwatch = 0;
    me->spin_n = 0;
    return;
  }
  if (me->spin_n >= kSpinThreshold) {
    // only block if somebody else could change the word
    bool others = false;
    for (int i = 0; i < R.nthreads; ++i)
      if (&R.thr[i] != me && R.thr[i].st != S_FINISHED && R.thr[i].st != S_FREE) others = true;
    me->spin_n = 0;
    if (!others) return;
    int nw = me->nwatch;  // keep watch set while blocked
    block_current(S_BLK_SPIN, nullptr, 0);
    (void)nw;
    me->nwatch = 0;
  }
}

}  // namespace rt

// =================================================================== public C API (scheduling part)
using namespace rt;

extern "C" {

int usim_active(void) { return sim_thread() ? 1 : 0; }
int usim_here(void) { return tl_self ? tl_self->id : -1; }
uint64_t usim_now(void) { return R.now_ns; }
uint64_t usim_seq(void) { return ++R.seq; }
uint64_t usim_step(void) { return R.step; }

int usim_live_threads(void) {
  int n = 0;
  for (int i = 0; i < R.nthreads; ++i)
    if (R.thr[i].st != S_FINISHED && R.thr[i].st != S_FREE) ++n;
  return n;
}

void usim_point(void) {
  if (!sim_on()) return;
  sched_point(OP_HARNESS, nullptr, false);
}

void usim_yield(void) {
  if (!sim_on()) { if (real.sched_yield) real.sched_yield(); return; }
  Thread* me = tl_self;
  if (me->np) return;
  me->yielded = true;
  me->yield_change = R.change_counter;
  spin_note_progress();
  sched_point(OP_YIELD, nullptr, false);
}

void usim_np_begin(void) { if (tl_self) ++tl_self->np; }
void usim_np_end(void) { if (tl_self) --tl_self->np; }

void usim_wait(int (*pred)(void*), void* arg) {
  if (!sim_on()) abort();
  Thread* me = tl_self;
  if (me->np) { fprintf(stderr, "usim_wait inside no-preempt scope\n"); abort(); }
  {
    RtScope g(me);
    if (pred(arg)) { /* still a scheduling point */ }
    else {
      me->pred = pred;
      me->pred_arg = arg;
      R.change_counter++;
      block_current(S_BLK_PRED, nullptr, 0);
      return;
    }
  }
  sched_point(OP_WAIT, nullptr, false);
}

void usim_sleep_ns(uint64_t ns) {
  if (!sim_on()) return;
  sched_point(OP_SLEEP, nullptr, false);
  block_current(S_SLEEP, nullptr, R.now_ns + (ns ? ns : 1));
}

uint64_t usim_draw(uint64_t n) {
  if (n <= 1) {
    if (R.active && !R.replay) R.tape.push(0);
    else if (R.active) R.tape_pos++;
    return 0;
  }
  if (!R.active) return 0;
  if (R.replay) {
    uint64_t v = R.tape_pos < R.tape.size() ? R.tape[R.tape_pos] : 0;
    R.tape_pos++;
    return v % n;
  }
  uint64_t v = R.rng_tape.below(n);
  R.tape.push(v);
  return v;
}

int usim_fault(int kind) { return fault(kind) ? 1 : 0; }
void usim_fault_rate(int kind, unsigned per_mille) {
  if (kind >= 0 && kind < USIM_F_COUNT) R.fault_rate[kind] = per_mille;
}
void usim_alloc_fault_window(int on) { if (tl_self) tl_self->alloc_window = on; }  // per calling thread

void usim_probe(const char* name) {
  for (size_t i = 0; i < R.probes.size(); ++i)
    if (R.probes[i].name == name || !strcmp(R.probes[i].name, name)) { R.probes[i].n++; return; }
  R.probes.push(Run::Probe{name, 1});
}
void usim_note_nontrivial(void) { R.nontrivial = true; }
void usim_trace(uint64_t v) {
  hash_fold(0x7ace ^ v);
  R.sem_seq = (R.sem_seq ^ v) * 0x100000001b3ull + 0x9e37;
  uint64_t x = v + 0x9e3779b97f4a7c15ull;
  R.sem_set += Rng::splitmix(x);
}

void usim_sample(const char* fmt, ...) {
  va_list ap;
  va_start(ap, fmt);
  size_t o = strlen(R.sample);
  if (o + 2 < sizeof R.sample) vsnprintf(R.sample + o, sizeof R.sample - o, fmt, ap);
  va_end(ap);
}

void usim_report(const char* oracle, const char* fmt, ...) {
  char msg[1500];
  va_list ap;
  va_start(ap, fmt);
  vsnprintf(msg, sizeof msg, fmt, ap);
  va_end(ap);
  if (!R.active) { fprintf(stderr, "usim_report outside run: %s: %s\n", oracle, msg); abort(); }
  end_run_with_verdict(USIM_V_VIOLATION, oracle, msg);
}

void usim_assert_fail(const char* expr, const char* file, int line) {
  char msg[600];
  const char* base = strrchr(file, '/');
  snprintf(msg, sizeof msg, "UNIFEX_ASSERT(%s) failed at %s:%d", expr, base ? base + 1 : file, line);
  if (!R.active) { fprintf(stderr, "%s\n", msg); abort(); }
  end_run_with_verdict(USIM_V_CRASH, "lib.assert", msg);
}

}  // extern "C"
