// Force-included into every instrumented translation unit (-include):
// library assertions become simulator verdicts instead of abort().
#pragma once
#ifdef __cplusplus
extern "C" void usim_assert_fail(const char* expr, const char* file, int line);
#else
void usim_assert_fail(const char* expr, const char* file, int line);
#endif
#ifndef UNIFEX_ASSERT
#define UNIFEX_ASSERT(x) ((x) ? (void)0 : usim_assert_fail(#x, __FILE__, __LINE__))
#endif
