// Force-included into every instrumented translation unit (-include).
// Debug configurations: library assertions become simulator verdicts instead of abort().
// NDEBUG configurations: assertions compile to nothing, exactly as in the shipped build
// (an expression with side effects inside UNIFEX_ASSERT must disappear there too).
#pragma once
#ifdef __cplusplus
extern "C" void usim_assert_fail(const char* expr, const char* file, int line);
#else
void usim_assert_fail(const char* expr, const char* file, int line);
#endif
#ifndef UNIFEX_ASSERT
#ifdef NDEBUG
#define UNIFEX_ASSERT(x) ((void)0)
#else
#define UNIFEX_ASSERT(x) ((x) ? (void)0 : usim_assert_fail(#x, __FILE__, __LINE__))
#endif
#endif
