// usim runtime — internal declarations shared by the runtime translation units.
// The runtime is compiled WITHOUT -fsanitize=thread.
#pragma once
#include "usim.h"

#include <pthread.h>
#include <signal.h>
#include <stdarg.h>
#include <stdint.h>
#include <stdio.h>
#include <stdlib.h>
#include <string.h>
#include <time.h>

namespace rt {

// ---------------------------------------------------------------- small utils
template <class T>
struct MVec {  // malloc-backed vector: never touches operator new / the arena
  T* d = nullptr;
  size_t n = 0, cap = 0;
  void push(const T& v) {
    if (n == cap) {
      cap = cap ? cap * 2 : 16;
      d = (T*)realloc((void*)d, cap * sizeof(T));
      if (!d) abort();
    }
    d[n++] = v;
  }
  void clear() { n = 0; }
  T& operator[](size_t i) { return d[i]; }
  const T& operator[](size_t i) const { return d[i]; }
  size_t size() const { return n; }
  bool empty() const { return n == 0; }
  void erase_at(size_t i) {
    for (size_t k = i + 1; k < n; ++k) d[k - 1] = d[k];
    --n;
  }
  T* begin() { return d; }
  T* end() { return d + n; }
};

struct Rng {  // xoshiro256**
  uint64_t s[4];
  static uint64_t splitmix(uint64_t& x) {
    uint64_t z = (x += 0x9e3779b97f4a7c15ull);
    z = (z ^ (z >> 30)) * 0xbf58476d1ce4e5b9ull;
    z = (z ^ (z >> 27)) * 0x94d049bb133111ebull;
    return z ^ (z >> 31);
  }
  void seed(uint64_t x) {
    for (int i = 0; i < 4; ++i) s[i] = splitmix(x);
  }
  static uint64_t rotl(uint64_t x, int k) { return (x << k) | (x >> (64 - k)); }
  uint64_t next() {
    uint64_t r = rotl(s[1] * 5, 7) * 9, t = s[1] << 17;
    s[2] ^= s[0]; s[3] ^= s[1]; s[1] ^= s[2]; s[0] ^= s[3];
    s[2] ^= t; s[3] = rotl(s[3], 45);
    return r;
  }
  uint64_t below(uint64_t n) { return n ? next() % n : 0; }
};

// ---------------------------------------------------------------- threads
enum St : uint8_t {
  S_FREE = 0,
  S_RUNNABLE,
  S_BLK_MUTEX,
  S_BLK_COND,
  S_BLK_JOIN,
  S_BLK_ONCE,
  S_SLEEP,
  S_BLK_SPIN,
  S_BLK_KERNEL,
  S_BLK_PRED,
  S_FINISHED,
};
const char* st_name(St s);

enum Op : uint8_t {  // operation kinds folded into the trace hash
  OP_LOAD = 1, OP_STORE, OP_RMW, OP_CAS, OP_FENCE,
  OP_MLOCK, OP_MTRY, OP_MUNLOCK, OP_CWAIT, OP_CSIGNAL, OP_CBCAST,
  OP_ONCE, OP_CREATE, OP_JOIN, OP_DETACH, OP_EXIT, OP_YIELD, OP_SLEEP, OP_CLOCK,
  OP_SYSCALL, OP_HARNESS, OP_WAIT, OP_KERNEL, OP_POST,
};

constexpr int kMaxThreads = 48;
constexpr int kMaxWatch = 4;
constexpr int kSpinThreshold = 12;

struct Thread {
  int id = -1;
  pthread_t real{};
  volatile int go = 0;  // futex word: baton
  St st = S_FREE;
  bool detached = false;
  bool joined = false;
  void* (*fn)(void*) = nullptr;
  void* arg = nullptr;
  void* ret = nullptr;
  usim_body_fn body = nullptr;  // for tid 0

  const void* wait_obj = nullptr;  // mutex / cond / once / join target
  uint64_t deadline = 0;           // 0 = none
  bool timed_out = false;
  int (*pred)(void*) = nullptr;
  void* pred_arg = nullptr;

  int alloc_window = 0;  // allocation-failure faults may hit this thread's operator new
  int np = 0;     // no-preempt depth (harness bookkeeping)
  int in_rt = 0;  // inside runtime: hooks pass through

  // yield bookkeeping
  bool yielded = false;
  uint64_t yield_change = 0;

  // spin detection
  int spin_n = 0;
  int nwatch = 0;
  uintptr_t watch_addr[kMaxWatch];
  uint64_t watch_val[kMaxWatch];
  bool spin_retry = false;

  uint64_t last_run = 0;
  int64_t prio = 0;
  uint64_t steps = 0;
  uint64_t sync_objs_hash = 0;
};

struct Decision { uint64_t step; int tid; };
struct FaultRec { int kind; uint64_t ordinal; uint64_t value; };

enum Strategy { STRAT_RW = 0, STRAT_PCT = 1, STRAT_NP = 2 };

struct TimerEntry {
  uint64_t deadline;
  uint64_t seq;
  void (*fire)(void*);
  void* arg;
  bool armed;
};

struct Run {
  bool active = false;
  bool replay = false;
  uint64_t seed = 0;
  uint64_t run_index = 0;
  Rng rng_sched, rng_fault, rng_tape;

  Thread thr[kMaxThreads];
  int nthreads = 0;
  int cur = -1;
  int finished = 0;

  uint64_t step = 0;
  uint64_t step_cap = 200000;
  uint64_t switches = 0;
  uint64_t change_counter = 1;
  uint64_t seq = 0;
  uint64_t hash = 0;
  uint64_t spin_last_change = 0;
  int spin_resumes = 0;
  uint64_t choice_ord = 0;
  uint64_t picks = 0;
  uint64_t plain_since_step = 0;
  uint64_t sem_seq = 0, sem_set = 0;  // harness-event digests (ordered / order-insensitive): configuration-independent

  // strategy
  int strategy = STRAT_RW;
  unsigned rw_permille = 100;
  int pct_d = 0;
  uint64_t pct_points[4];
  int64_t pct_low = -1;
  bool timer_first = false;

  // clock
  uint64_t now_ns = 0;
  uint64_t sim_ns_start = 0;
  MVec<TimerEntry> timers;
  uint64_t timer_seq = 0;

  // record / replay
  MVec<uint64_t> tape;      size_t tape_pos = 0;
  MVec<Decision> decisions; size_t dec_pos = 0;
  MVec<FaultRec> faults;    // fired faults (record) or to-fire (replay)
  uint64_t fault_ord[USIM_F_COUNT];
  uint64_t fault_fired[USIM_F_COUNT];
  unsigned fault_rate[USIM_F_COUNT];  // per mille
  int alloc_window = 0;

  // verdict
  int verdict = USIM_V_OK;
  char oracle[96];
  char message[2048];
  bool nontrivial = false;
  unsigned shared_sync = 0;  // threads that performed >=1 sync op
  char sample[1024];

  // probes
  struct Probe { const char* name; uint64_t n; };
  MVec<Probe> probes;

  volatile int done_futex = 0;
};

struct ObjEnt { uintptr_t a; uint64_t mask; };
extern ObjEnt g_objtab[1024];
void sched_pass_from_finished(Thread* me);
void release_all_carriers();

extern Run R;
extern __thread Thread* tl_self;

// guard marking "inside runtime": hooks invoked from here are pass-through
struct RtScope {
  Thread* t;
  explicit RtScope(Thread* th) : t(th) { if (t) ++t->in_rt; }
  ~RtScope() { if (t) --t->in_rt; }
};

inline bool sim_on() {  // is the calling thread a sim thread of an active run, outside the runtime
  Thread* t = tl_self;
  return t && R.active && !t->in_rt;
}
inline bool sim_thread() { return tl_self && R.active; }

// ---- scheduler core (sched.cpp)
void sched_point(Op op, const void* obj, bool changes_state);
void block_current(St st, const void* obj, uint64_t deadline);  // returns when rescheduled
void make_runnable(Thread* t);
void wake_kernel_waiters();
void note_write(const void* addr);       // spin-waiter wake-up
void spin_note_poll(const void* addr, uint64_t val);  // called after a non-progress op
void spin_note_progress();
int choose(int n);                        // recorded nondeterministic choice in [0,n)
bool fault(int kind, uint64_t* value_inout = nullptr);
uint64_t timer_add(uint64_t deadline, void (*fire)(void*), void* arg);
void timer_cancel_arg(void* arg);
void end_run_with_verdict(int verdict, const char* oracle, const char* msg) __attribute__((noreturn));
void hash_fold(uint64_t v);
uint64_t clock_read();  // advances by 1us (+jitter)

// ---- futex helpers (raw syscalls; never interposed)
long raw_syscall6(long n, long a, long b, long c, long d, long e, long f);
void futex_wait(volatile int* addr, int val);
void futex_wake(volatile int* addr, int n);

// ---- real libc entry points (resolved with dlsym(RTLD_NEXT))
struct Real {
  int (*pthread_create)(pthread_t*, const pthread_attr_t*, void* (*)(void*), void*);
  int (*pthread_join)(pthread_t, void**);
  int (*pthread_detach)(pthread_t);
  int (*pthread_mutex_lock)(pthread_mutex_t*);
  int (*pthread_mutex_trylock)(pthread_mutex_t*);
  int (*pthread_mutex_unlock)(pthread_mutex_t*);
  int (*pthread_cond_wait)(pthread_cond_t*, pthread_mutex_t*);
  int (*pthread_cond_timedwait)(pthread_cond_t*, pthread_mutex_t*, const struct timespec*);
  int (*pthread_cond_clockwait)(pthread_cond_t*, pthread_mutex_t*, clockid_t, const struct timespec*);
  int (*pthread_cond_signal)(pthread_cond_t*);
  int (*pthread_cond_broadcast)(pthread_cond_t*);
  int (*pthread_once)(pthread_once_t*, void (*)(void));
  int (*sched_yield)(void);
  int (*clock_gettime)(clockid_t, struct timespec*);
  int (*nanosleep)(const struct timespec*, struct timespec*);
  int (*clock_nanosleep)(clockid_t, int, const struct timespec*, struct timespec*);
};
extern Real real;
void resolve_real();

// ---- arena (arena.cpp)
void arena_init();
void arena_reset();
void* arena_alloc(size_t n, size_t align, bool harness);
bool arena_free(void* p);   // false if not an arena pointer
void arena_check(const void* addr, size_t n, bool is_write);
size_t arena_live_library_blocks(char* desc, size_t desc_n);
extern uintptr_t g_arena_base, g_arena_end;
inline bool in_arena(const void* p) {
  return (uintptr_t)p >= g_arena_base && (uintptr_t)p < g_arena_end;
}

// ---- pthread shim per-run reset
void shim_reset();
// ---- fd layer / uring per-run reset (weak: only present in I/O workloads)
void fdlayer_reset() __attribute__((weak));
void fdlayer_end_of_run() __attribute__((weak));
void uring_reset() __attribute__((weak));
void uring_end_of_run() __attribute__((weak));
void uring_on_close(int fd) __attribute__((weak));
void fd_on_arena_free(void* p, size_t n) __attribute__((weak));  // fdlayer: no kernel registration may point into freed memory

// ---- crash
void crash_install();
void crash_thread_init(Thread* t);
void describe_threads(char* buf, size_t n);
void library_site(char* out, size_t n);

}  // namespace rt
