// usim runtime — the ThreadSanitizer ABI, served by the simulator.
// Library and harness code is compiled with -fsanitize=thread but linked
// WITHOUT libtsan; these definitions make every atomic operation a scheduling
// point and every plain access a shadow-memory check.
#include "rt_internal.hpp"

using namespace rt;

typedef unsigned char a8;
typedef unsigned short a16;
typedef unsigned int a32;
typedef unsigned long long a64;
typedef __int128 a128;

namespace {

inline bool pre(Op op, const volatile void* a, size_t n, bool changes) {
  if (!sim_on()) return false;
  arena_check((const void*)a, n, changes);
  sched_point(op, (const void*)a, changes);
  return true;
}

// A second scheduling point *after* every atomic write: plain accesses that
// follow a release operation (e.g. a field written after an unlock) can then be
// separated from it, which is where racy late writes hide.
inline void post_release(const volatile void* a) { sched_point(OP_POST, (const void*)a, false); }

// --param optrace=1: print every atomic operation of a (replayed) run to stderr
static int g_optrace = -1;
static inline bool optrace() {
  if (g_optrace < 0) g_optrace = usim_param_int("optrace", 0) ? 1 : 0;
  return g_optrace == 1;
}
static void optrace_print(const char* op, const volatile void* a, unsigned long long v, unsigned long long v2) {
  Thread* me = tl_self;
  ++me->in_rt;
  char site[300];
  library_site(site, sizeof site);
  fprintf(stderr, "  [T%d step %llu] %-6s %p = %llx (%llx)  %s\n", me->id, (unsigned long long)R.step, op, (void*)a, v, v2, site);
  --me->in_rt;
}

template <class T>
inline T do_load(const volatile T* a) {
  bool s = pre(OP_LOAD, a, sizeof(T), false);
  T v = __atomic_load_n(a, __ATOMIC_SEQ_CST);
  if (s && optrace()) optrace_print("load", a, (unsigned long long)v, 0);
  if (s) spin_note_poll((const void*)a, (uint64_t)v);
  return v;
}
template <class T>
inline void do_store(volatile T* a, T v) {
  bool s = pre(OP_STORE, a, sizeof(T), true);
  __atomic_store_n(a, v, __ATOMIC_SEQ_CST);
  if (s && optrace()) optrace_print("store", a, (unsigned long long)v, 0);
  if (s) { spin_note_progress(); note_write((const void*)a); post_release(a); }
}
template <class T, class F>
inline T do_rmw(volatile T* a, F f) {
  bool s = pre(OP_RMW, a, sizeof(T), true);
  T old = f();
  if (s && optrace()) optrace_print("rmw", a, (unsigned long long)old, (unsigned long long)__atomic_load_n(a, __ATOMIC_SEQ_CST));
  if (s) { spin_note_progress(); note_write((const void*)a); post_release(a); }
  return old;
}
template <class T>
inline int do_cas(volatile T* a, T* c, T v, bool weak) {
  bool s = pre(OP_CAS, a, sizeof(T), true);
  if (s && weak && fault(USIM_F_CAS_WEAK)) {
    // spurious failure: report the current value, change nothing
    T cur = __atomic_load_n(a, __ATOMIC_SEQ_CST);
    if (cur == *c) { spin_note_poll((const void*)a, (uint64_t)cur); return 0; }
    *c = cur;
    spin_note_poll((const void*)a, (uint64_t)cur);
    return 0;
  }
  int ok = __atomic_compare_exchange_n(a, c, v, false, __ATOMIC_SEQ_CST, __ATOMIC_SEQ_CST);
  if (s && optrace()) optrace_print(ok ? "cas-ok" : "cas-no", a, (unsigned long long)*c, (unsigned long long)v);
  if (s) {
    if (ok) { spin_note_progress(); note_write((const void*)a); post_release(a); }
    else spin_note_poll((const void*)a, (uint64_t)*c);
  }
  return ok;
}

}  // namespace

extern "C" {

void __tsan_init(void) {}
void __tsan_func_entry(void*) {}
void __tsan_func_exit(void) {}
void __tsan_vptr_update(void** vptr_p, void* new_val) {
  if (sim_on()) arena_check(vptr_p, sizeof(void*), true);
  (void)new_val;
}
void __tsan_vptr_read(void** vptr_p) {
  if (sim_on()) arena_check(vptr_p, sizeof(void*), false);
}

// An instrumented thread that performs tens of millions of plain accesses without
// reaching a single synchronisation operation is spinning forever on data only it
// can change (e.g. walking a list that has become cyclic): a deterministic livelock verdict.
static inline void plain_tick() {
  if (__builtin_expect(++R.plain_since_step > 30000000ull, 0)) {
    ++tl_self->in_rt;
    end_run_with_verdict(USIM_V_LIVELOCK, "sim.livelock", "30M plain memory accesses without reaching a synchronisation operation (endless loop on private/locked data)");
  }
}
#define PLAIN(N)                                                          \
  void __tsan_read##N(void* a) { if (sim_on()) { plain_tick(); arena_check(a, N, false); } } \
  void __tsan_write##N(void* a) { if (sim_on()) { plain_tick(); arena_check(a, N, true); } } \
  void __tsan_unaligned_read##N(void* a) { if (sim_on()) arena_check(a, N, false); } \
  void __tsan_unaligned_write##N(void* a) { if (sim_on()) arena_check(a, N, true); } \
  void __tsan_read##N##_pc(void* a, void*) { if (sim_on()) arena_check(a, N, false); } \
  void __tsan_write##N##_pc(void* a, void*) { if (sim_on()) arena_check(a, N, true); }
PLAIN(1) PLAIN(2) PLAIN(4) PLAIN(8) PLAIN(16)
#undef PLAIN

void __tsan_read_range(void* a, unsigned long n) { if (sim_on() && n) arena_check(a, n, false); }
void __tsan_write_range(void* a, unsigned long n) { if (sim_on() && n) arena_check(a, n, true); }
void __tsan_read_range_pc(void* a, unsigned long n, void*) { if (sim_on() && n) arena_check(a, n, false); }
void __tsan_write_range_pc(void* a, unsigned long n, void*) { if (sim_on() && n) arena_check(a, n, true); }

#define ATOMICS(T, N)                                                                         \
  T __tsan_atomic##N##_load(const volatile T* a, int) { return do_load<T>(a); }               \
  void __tsan_atomic##N##_store(volatile T* a, T v, int) { do_store<T>(a, v); }               \
  T __tsan_atomic##N##_exchange(volatile T* a, T v, int) {                                    \
    return do_rmw<T>(a, [&] { return __atomic_exchange_n(a, v, __ATOMIC_SEQ_CST); });         \
  }                                                                                           \
  T __tsan_atomic##N##_fetch_add(volatile T* a, T v, int) {                                   \
    return do_rmw<T>(a, [&] { return __atomic_fetch_add(a, v, __ATOMIC_SEQ_CST); });          \
  }                                                                                           \
  T __tsan_atomic##N##_fetch_sub(volatile T* a, T v, int) {                                   \
    return do_rmw<T>(a, [&] { return __atomic_fetch_sub(a, v, __ATOMIC_SEQ_CST); });          \
  }                                                                                           \
  T __tsan_atomic##N##_fetch_and(volatile T* a, T v, int) {                                   \
    return do_rmw<T>(a, [&] { return __atomic_fetch_and(a, v, __ATOMIC_SEQ_CST); });          \
  }                                                                                           \
  T __tsan_atomic##N##_fetch_or(volatile T* a, T v, int) {                                    \
    return do_rmw<T>(a, [&] { return __atomic_fetch_or(a, v, __ATOMIC_SEQ_CST); });           \
  }                                                                                           \
  T __tsan_atomic##N##_fetch_xor(volatile T* a, T v, int) {                                   \
    return do_rmw<T>(a, [&] { return __atomic_fetch_xor(a, v, __ATOMIC_SEQ_CST); });          \
  }                                                                                           \
  T __tsan_atomic##N##_fetch_nand(volatile T* a, T v, int) {                                  \
    return do_rmw<T>(a, [&] { return __atomic_fetch_nand(a, v, __ATOMIC_SEQ_CST); });         \
  }                                                                                           \
  int __tsan_atomic##N##_compare_exchange_strong(volatile T* a, T* c, T v, int, int) {        \
    return do_cas<T>(a, c, v, false);                                                         \
  }                                                                                           \
  int __tsan_atomic##N##_compare_exchange_weak(volatile T* a, T* c, T v, int, int) {          \
    return do_cas<T>(a, c, v, true);                                                          \
  }                                                                                           \
  T __tsan_atomic##N##_compare_exchange_val(volatile T* a, T c, T v, int, int) {              \
    do_cas<T>(a, &c, v, false);                                                               \
    return c;                                                                                 \
  }
ATOMICS(a8, 8) ATOMICS(a16, 16) ATOMICS(a32, 32) ATOMICS(a64, 64)
#undef ATOMICS

void __tsan_atomic_thread_fence(int) {
  if (sim_on()) sched_point(OP_FENCE, nullptr, false);
  __atomic_thread_fence(__ATOMIC_SEQ_CST);
}
void __tsan_atomic_signal_fence(int) {}

}  // extern "C"
