// Harness kit — "items": schedule()/schedule_at()-style operations with a
// counting receiver. Used by the scheduler, timer and I/O-context workloads.
#pragma once
#include <kit/base.hpp>

#include <unifex/get_stop_token.hpp>
#include <unifex/inplace_stop_token.hpp>
#include <unifex/receiver_concepts.hpp>
#include <unifex/sender_concepts.hpp>

#include <exception>
#include <thread>

namespace kit {

enum Channel { CH_NONE = 0, CH_VALUE = 1, CH_ERROR = 2, CH_DONE = 3 };
inline const char* ch_name(int c) { return c == CH_VALUE ? "value" : c == CH_ERROR ? "error" : c == CH_DONE ? "done" : "none"; }

struct Item {
  int id = 0;
  int producer = 0;      // logical producer index
  // plan
  int stop_mode = 0;     // 0 never, 1 before start, 2 after start (after stop_yields), 3 from a separate stopper thread
  int stop_yields = 0;
  int pre_yields = 0;
  bool free_in_completion = true;
  // history
  uint64_t start_begin = 0, start_end = 0, done_seq = 0, stop_begin = 0, stop_end = 0;
  int completions = 0;
  int channel = CH_NONE;
  int done_tid = -1;
  std::thread::id done_thread{};
  uint64_t done_now = 0;   // simulated clock at completion (not advancing)
  bool in_start = false;   // completion happened inside start()
  unifex::inplace_stop_source* stop = nullptr;  // harness-owned (malloc side), outlives the op
  void (*free_op)(Item*) = nullptr;             // destroys + frees the op-state block
  void* op = nullptr;
  void (*on_complete)(Item*, void*) = nullptr;  // optional user hook, runs after bookkeeping
  void* hook_arg = nullptr;
  const char* oracle_prefix = "c06";
};

inline void item_completed(Item* it, int ch) {
  void (*hook)(Item*, void*);
  void* harg;
  {
    usim::np_scope np;
    char orc[32];
    snprintf(orc, sizeof orc, "%s.double", it->oracle_prefix);
    KIT_CHECK(it->completions == 0, orc, "item %d completed twice (first %s, now %s)", it->id, ch_name(it->channel), ch_name(ch));
    snprintf(orc, sizeof orc, "%s.before-start", it->oracle_prefix);
    KIT_CHECK(it->start_begin != 0, orc, "item %d completed before start() was called", it->id);
    it->completions++;
    it->channel = ch;
    it->done_seq = seq();
    it->done_tid = usim_here();
    it->done_thread = std::this_thread::get_id();
    it->done_now = usim_now();
    it->in_start = it->start_end == 0;
    if (ch == CH_DONE) {
      snprintf(orc, sizeof orc, "%s.done-without-stop", it->oracle_prefix);
      KIT_CHECK(it->stop_begin != 0, orc, "item %d completed with done although stop was never requested", it->id);
    }
    usim_trace(0x17e0000 + it->id * 4 + ch);
    hook = it->on_complete;
    harg = it->hook_arg;
  }
  // The receiver is allowed to destroy the operation state inside its completion function.
  if (it->free_in_completion && it->free_op) it->free_op(it);
  if (hook) hook(it, harg);
}

struct ItemReceiver {
  Item* it;
  void set_value() && noexcept { item_completed(it, CH_VALUE); }
  template <class E>
  void set_error(E&&) && noexcept { item_completed(it, CH_ERROR); }
  void set_done() && noexcept { item_completed(it, CH_DONE); }
  friend unifex::inplace_stop_token tag_invoke(unifex::tag_t<unifex::get_stop_token>, const ItemReceiver& r) noexcept {
    return r.it->stop ? r.it->stop->get_token() : unifex::inplace_stop_token{};
  }
};

// receiver without a stop token (selects the is_stop_never_possible paths)
struct ItemReceiverNoStop {
  Item* it;
  void set_value() && noexcept { item_completed(it, CH_VALUE); }
  template <class E>
  void set_error(E&&) && noexcept { item_completed(it, CH_ERROR); }
  void set_done() && noexcept { item_completed(it, CH_DONE); }
};

template <class Op>
void free_op_impl(Item* it) {
  Op* op = (Op*)it->op;
  it->op = nullptr;
  op->~Op();
  usim_free(op);
}

// connect `sender` to the item's receiver inside a fresh poisoned arena block and start it
template <class Receiver = ItemReceiver, class Sender>
void item_start(Item* it, Sender&& sender) {
  using Op = unifex::connect_result_t<Sender, Receiver>;
  void* raw = usim_alloc(sizeof(Op));
  Op* op = ::new (raw) Op(unifex::connect((Sender &&) sender, Receiver{it}));
  {
    usim::np_scope np;
    it->op = op;
    it->free_op = &free_op_impl<Op>;
    it->start_begin = seq();
  }
  unifex::start(*op);
  {
    usim::np_scope np;
    it->start_end = seq();
  }
}

inline void item_request_stop(Item* it) {
  { usim::np_scope np; it->stop_begin = seq(); }
  it->stop->request_stop();
  { usim::np_scope np; it->stop_end = seq(); }
}

inline void item_cleanup(Item* it) {
  if (it->op && it->free_op) it->free_op(it);
}

struct items_done_wait {
  Item* items;
  int n;
  static int pred(void* p) {
    auto* w = (items_done_wait*)p;
    for (int i = 0; i < w->n; ++i)
      if (w->items[i].start_begin && !w->items[i].completions) return 0;
    return 1;
  }
};
inline void wait_items_done(Item* items, int n) {
  items_done_wait w{items, n};
  usim_wait(&items_done_wait::pred, &w);
}

}  // namespace kit
