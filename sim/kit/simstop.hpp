// Harness kit — a third-party stop token type (not inplace_stop_token).
// It exercises the generic StopToken paths of the library
// (inplace_stop_token_adapter, callback_type<...>), counts live registrations
// and detects any use after the harness has declared the source dead.
#pragma once
#include <kit/base.hpp>

#include <exception>
#include <stdexcept>

namespace kit {

class sim_stop_source;

struct sim_cb_base {
  sim_stop_source* src = nullptr;
  sim_cb_base* next = nullptr;
  sim_cb_base** prevp = nullptr;
  bool executing = false;
  int exec_tid = -1;
  bool done = false;
  bool* removed_flag = nullptr;
  virtual void run() noexcept = 0;

protected:
  ~sim_cb_base() = default;
};

struct stop_registration_error : std::runtime_error {
  stop_registration_error() : std::runtime_error("injected: stop callback registration failed") {}
};

class sim_stop_token;

class sim_stop_source {
public:
  sim_stop_source() = default;
  sim_stop_source(const sim_stop_source&) = delete;
  ~sim_stop_source() {
    usim::np_scope np;
    KIT_CHECK(live_ == 0, "c04.live-registration-at-completion", "sim_stop_source destroyed with %d live registration(s)", live_);
  }

  sim_stop_token get_token() noexcept;

  bool stop_requested() const noexcept {
    usim_point();
    usim::np_scope np;
    check_alive("stop_requested()");
    return requested_;
  }

  // true if this call made the transition (std::stop_source convention).
  // from_user: the harness itself requests stop; the user may do that at any time, also after
  // the operation completed (then it is a no-op here), so it is never reported.
  bool request_stop(bool from_user = false) noexcept {
    usim_point();
    {
      usim::np_scope np;
      if (from_user && dead_) return false;
      if (!from_user) check_alive("request_stop()");
      if (requested_) return false;
      requested_ = true;
      notifier_ = usim_here();
    }
    for (;;) {
      sim_cb_base* cb;
      bool removed = false;
      {
        usim::np_scope np;
        cb = head_;
        if (!cb) break;
        head_ = cb->next;
        if (head_) head_->prevp = &head_;
        cb->prevp = nullptr;
        cb->next = nullptr;
        cb->executing = true;
        cb->exec_tid = usim_here();
        cb->removed_flag = &removed;
      }
      cb->run();
      {
        usim::np_scope np;
        if (!removed) {
          cb->removed_flag = nullptr;
          cb->executing = false;
          cb->done = true;
        }
      }
      usim_point();
    }
    return true;
  }

  int live_registrations() const noexcept { return live_; }
  int total_registrations() const noexcept { return total_; }
  void throw_on_registration(bool on) noexcept { may_throw_ = on; }

  // Harness: after this, any use of the source/token by the library is reported.
  void declare_dead(const char* why) noexcept { dead_ = why; }
  bool stop_requested_quiet() const noexcept { return requested_; }

private:
  friend class sim_stop_token;
  template <class F>
  friend class sim_stop_callback;

  void check_alive(const char* what) const noexcept {
    if (dead_) usim_report("c04.token-use-after-completion", "%s on the receiver's stop source after %s", what, dead_);
  }

  // returns false if stop already requested (caller runs the callback inline)
  bool add(sim_cb_base* cb) {
    usim_point();
    usim::np_scope np;
    check_alive("callback registration");
    if (may_throw_ && usim_fault(USIM_F_STOP_REG_THROW)) throw stop_registration_error();
    ++total_;
    if (requested_) return false;
    cb->next = head_;
    cb->prevp = &head_;
    if (head_) head_->prevp = &cb->next;
    head_ = cb;
    cb->src = this;
    ++live_;
    return true;
  }

  static int cb_done(void* p) { return ((sim_cb_base*)p)->done ? 1 : 0; }

  void remove(sim_cb_base* cb) noexcept {
    usim_point();
    bool must_wait = false;
    {
      usim::np_scope np;
      check_alive("callback deregistration");
      --live_;
      if (cb->prevp) {
        *cb->prevp = cb->next;
        if (cb->next) cb->next->prevp = cb->prevp;
        cb->prevp = nullptr;
        return;
      }
      if (cb->executing) {
        if (cb->exec_tid == usim_here()) {
          if (cb->removed_flag) *cb->removed_flag = true;
          return;
        }
        must_wait = true;
      }
    }
    if (must_wait) usim_wait(&cb_done, cb);
  }

  bool requested_ = false;
  int notifier_ = -1;
  sim_cb_base* head_ = nullptr;
  int live_ = 0;
  int total_ = 0;
  bool may_throw_ = false;
  const char* dead_ = nullptr;
};

template <class F>
class sim_stop_callback final : private sim_cb_base {
public:
  template <class T>
  explicit sim_stop_callback(sim_stop_token tok, T&& f);
  ~sim_stop_callback() {
    if (src) src->remove(this);
  }
  sim_stop_callback(const sim_stop_callback&) = delete;

private:
  void run() noexcept override { f_(); }
  F f_;
};

class sim_stop_token {
public:
  template <class F>
  using callback_type = sim_stop_callback<F>;
  sim_stop_token() noexcept = default;
  // Like std::stop_token, moving is destructive: the moved-from token is empty (stop_possible() == false).
  // Library code that asks a token anything after moving it elsewhere gets the wrong answer.
  sim_stop_token(const sim_stop_token&) noexcept = default;
  sim_stop_token& operator=(const sim_stop_token&) noexcept = default;
  sim_stop_token(sim_stop_token&& o) noexcept : s_(o.s_) { o.s_ = nullptr; }
  sim_stop_token& operator=(sim_stop_token&& o) noexcept { sim_stop_source* t = o.s_; o.s_ = nullptr; s_ = t; return *this; }
  bool stop_requested() const noexcept { return s_ && s_->stop_requested(); }
  bool stop_possible() const noexcept { return s_ != nullptr; }
  friend bool operator==(const sim_stop_token& a, const sim_stop_token& b) noexcept { return a.s_ == b.s_; }
  friend bool operator!=(const sim_stop_token& a, const sim_stop_token& b) noexcept { return a.s_ != b.s_; }
  sim_stop_source* source() const noexcept { return s_; }

private:
  friend class sim_stop_source;
  template <class F>
  friend class sim_stop_callback;
  explicit sim_stop_token(sim_stop_source* s) noexcept : s_(s) {}
  sim_stop_source* s_ = nullptr;
};

inline sim_stop_token sim_stop_source::get_token() noexcept { return sim_stop_token{this}; }

template <class F>
template <class T>
sim_stop_callback<F>::sim_stop_callback(sim_stop_token tok, T&& f) : f_((T &&) f) {
  if (tok.s_) {
    if (!tok.s_->add(this)) {
      src = nullptr;
      f_();  // already stopped: run inline
    }
  }
}

}  // namespace kit
