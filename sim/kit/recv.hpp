// Harness kit — a generic recording receiver with scheduler and stop-token queries.
#pragma once
#include <kit/base.hpp>
#include <kit/items.hpp>

#include <unifex/get_stop_token.hpp>
#include <unifex/inplace_stop_token.hpp>
#include <unifex/scheduler_concepts.hpp>

#include <exception>
#include <thread>
#include <tuple>

namespace kit {

struct OpRec {
  const char* what = "op";
  int a = 0, b = 0;  // identification for messages
  const char* oracle_double = "c01.double-signal";
  uint64_t start_begin = 0, start_end = 0, done_seq = 0, stop_begin = 0, stop_end = 0;
  int completions = 0;
  int channel = CH_NONE;
  int done_tid = -1;
  std::thread::id done_thread{};
  bool in_start = false;
  long value = 0;  // first value payload (if integral)
  volatile int flag = 0;
  unifex::inplace_stop_source* stop = nullptr;
  void (*hook)(OpRec*, void*) = nullptr;
  void* hook_arg = nullptr;

  void complete(int ch, long v = 0) noexcept {
    void (*h)(OpRec*, void*);
    void* ha;
    {
      usim::np_scope np;
      KIT_CHECK(completions == 0, oracle_double, "%s %d/%d completed twice (first %s, now %s)", what, a, b, ch_name(channel), ch_name(ch));
      KIT_CHECK(start_begin != 0, oracle_double, "%s %d/%d completed before start()", what, a, b);
      completions++;
      channel = ch;
      value = v;
      done_seq = seq();
      done_tid = usim_here();
      done_thread = std::this_thread::get_id();
      in_start = start_end == 0;
      usim_trace(0x0c0000 + a * 64 + b * 4 + ch);
      KIT_TRACE("%s %d/%d completed with %s value=%ld", what, a, b, ch_name(ch), v);
      h = hook;
      ha = hook_arg;
    }
    if (h) h(this, ha);
    flag = 1;
  }
  void begin_start() { usim::np_scope np; start_begin = seq(); }
  void end_start() { usim::np_scope np; start_end = seq(); }
  void request_stop() {
    { usim::np_scope np; stop_begin = seq(); }
    stop->request_stop();
    { usim::np_scope np; stop_end = seq(); }
  }
  void wait() { wait_flag(&flag); }
};

template <class Sched>
struct SchedReceiver {
  OpRec* rec;
  Sched sched;
  template <class... V>
  void set_value(V&&... v) && noexcept {
    long first = 0;
    if constexpr (sizeof...(V) > 0) {
      auto&& f = std::get<0>(std::forward_as_tuple(v...));
      if constexpr (std::is_convertible_v<decltype(f), long>) first = (long)f;
    }
    rec->complete(CH_VALUE, first);
  }
  template <class E>
  void set_error(E&&) && noexcept { rec->complete(CH_ERROR); }
  void set_done() && noexcept { rec->complete(CH_DONE); }
  friend Sched tag_invoke(unifex::tag_t<unifex::get_scheduler>, const SchedReceiver& r) noexcept { return r.sched; }
  friend unifex::inplace_stop_token tag_invoke(unifex::tag_t<unifex::get_stop_token>, const SchedReceiver& r) noexcept {
    return r.rec->stop ? r.rec->stop->get_token() : unifex::inplace_stop_token{};
  }
};

// connects `sender` to a SchedReceiver inside its own arena block, starts it
template <class Sched, class Sender>
struct started_op {
  using R = SchedReceiver<Sched>;
  using Op = unifex::connect_result_t<Sender, R>;
  arena_box<Op> box;
  void start(OpRec* rec, Sched sched, Sender&& s) {
    box.construct_with([&]() { return unifex::connect((Sender &&) s, R{rec, sched}); });
    rec->begin_start();
    unifex::start(*box);
    rec->end_start();
  }
  void destroy() { if (box.alive()) box.destroy(); }
};

}  // namespace kit
