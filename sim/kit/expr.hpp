// Harness kit — erased sender composition for the sender interpreter (DESIGN.md §3).
//
// * Val / TestError: tracked payloads with unique ids.
// * sim_sched: a scheduler handle naming one of the world's contexts (0 = inline).
// * any_snd: a copyable, multi-shot erased sender of exactly one Val. Every library
//   adaptor is instantiated once over any_snd children; the result is re-erased.
//   Every any_op is a *tap*: it counts and orders the signals crossing its edge.
// * leaf_sender: scripted leaves whose completion, stop reaction and probes are
//   driven by the plan; the library-provided receiver they are given is what is tested.
#pragma once
#include <kit/base.hpp>
#include <kit/items.hpp>
#include <kit/simstop.hpp>

#include <unifex/get_allocator.hpp>
#include <unifex/continuations.hpp>
#include <unifex/get_stop_token.hpp>
#include <unifex/inline_scheduler.hpp>
#include <unifex/inplace_stop_token.hpp>
#include <unifex/manual_lifetime.hpp>
#include <unifex/receiver_concepts.hpp>
#include <unifex/scheduler_concepts.hpp>
#include <unifex/sender_concepts.hpp>
#include <unifex/single_thread_context.hpp>
#include <unifex/unstoppable_token.hpp>

#include <exception>
#include <functional>
#include <type_traits>

namespace kit::ex {

struct World;
World* world();  // the current run's world (set by the workload)

// ------------------------------------------------------------------ tracked value
enum ObjState : uint8_t { OBJ_NEVER = 0, OBJ_ALIVE = 1, OBJ_MOVED = 2, OBJ_DEAD = 3 };

struct injected_throw : std::exception {
  long code;
  explicit injected_throw(long c) : code(c) {}
  const char* what() const noexcept override { return "injected throw"; }
};
struct TestError {
  long id;
};

void val_born(const void* self, long id, bool by_copy);
void val_moved_from(const void* self);
void val_dying(const void* self);
void val_used(const void* self, const char* how);
bool val_copy_should_throw();

struct Val {
  long id;
  explicit Val(long i) : id(i) { val_born(this, id, false); }
  Val(const Val& o) : id(o.id) {
    val_used(&o, "copy-from");
    if (val_copy_should_throw()) throw injected_throw(-7000 - id % 1000);
    val_born(this, id, true);
  }
  Val(Val&& o) noexcept : id(o.id) {
    val_used(&o, "move-from");
    val_born(this, id, false);
    val_moved_from(&o);
    o.id = -1000000 - id;  // a moved-from value is visibly different (like a string or a vector would be)
  }
  Val& operator=(const Val& o) {
    val_used(&o, "assign-from");
    val_used(this, "assign-to");
    id = o.id;
    return *this;
  }
  Val& operator=(Val&& o) noexcept {
    val_used(&o, "move-assign-from");
    val_used(this, "move-assign-to");
    id = o.id;
    if (this != &o) { val_moved_from(&o); o.id = -1000000 - id; }
    return *this;
  }
  ~Val() { val_dying(this); }
  long get() const { val_used(this, "read"); return id; }
};

inline long mix(long k, long v) { return (k * 1000003 + v * 7919 + 17) % 1000000007; }

// ------------------------------------------------------------------ custom query CPO
inline constexpr struct get_tag_fn {
  template <class T>
  auto operator()(const T& t) const noexcept -> unifex::tag_invoke_result_t<get_tag_fn, const T&> {
    return unifex::tag_invoke(*this, t);
  }
  template <class T>
  auto operator()(const T&) const noexcept -> std::enable_if_t<!unifex::is_tag_invocable_v<get_tag_fn, const T&>, long> {
    return -1;  // no receiver on the chain answered
  }
} get_tag{};

// counting allocator handle (identity = id); memory comes from the arena via operator new
struct AllocStats { int allocs = 0, deallocs = 0; long bytes = 0; };
AllocStats& alloc_stats(int id);
template <class T>
struct sim_allocator {
  using value_type = T;
  int id = 0;
  sim_allocator() = default;
  explicit sim_allocator(int i) : id(i) {}
  template <class U>
  sim_allocator(const sim_allocator<U>& o) noexcept : id(o.id) {}
  T* allocate(size_t n) {
    T* p = (T*)::operator new(n * sizeof(T));  // (may throw under allocation-failure faults: count only what was served)
    { usim::np_scope np; auto& s = alloc_stats(id); s.allocs++; s.bytes += (long)(n * sizeof(T)); KIT_TRACE("allocator %d: allocate %zu bytes", id, n * sizeof(T)); }
    return p;
  }
  void deallocate(T* p, size_t n) noexcept {
    { usim::np_scope np; auto& s = alloc_stats(id); s.deallocs++; s.bytes -= (long)(n * sizeof(T)); KIT_TRACE("allocator %d: deallocate %zu bytes", id, n * sizeof(T)); }
    ::operator delete(p);
  }
  // pmr-style: a container copy does not inherit the arena. An adaptor that stores "a copy-constructed" allocator instead of
  // the one visible through its receiver ends up on arena 4, which nothing in a run may ever use.
  sim_allocator select_on_container_copy_construction() const noexcept { return sim_allocator(4); }
  template <class U>
  bool operator==(const sim_allocator<U>& o) const noexcept { return id == o.id; }
  template <class U>
  bool operator!=(const sim_allocator<U>& o) const noexcept { return id != o.id; }
};

// ------------------------------------------------------------------ scheduler handle
using ctx_sched_t = decltype(std::declval<unifex::single_thread_context&>().get_scheduler());
unifex::single_thread_context* world_ctx(int id);  // id >= 1
std::thread::id world_ctx_thread(int id);

struct sim_sched {
  int id = 0;  // 0 = inline on the calling thread, k>=1 = world context k
  struct sender {
    int id;
    template <template <class...> class Variant, template <class...> class Tuple>
    using value_types = Variant<Tuple<>>;
    template <template <class...> class Variant>
    using error_types = Variant<std::exception_ptr>;
    static constexpr bool sends_done = true;
    template <class R>
    struct op {
      using inl_t = unifex::connect_result_t<decltype(unifex::schedule(unifex::inline_scheduler{})), R>;
      using ctx_t = unifex::connect_result_t<decltype(unifex::schedule(std::declval<ctx_sched_t&>())), R>;
      int id;
      union {
        unifex::manual_lifetime<inl_t> inl;
        unifex::manual_lifetime<ctx_t> ctx;
      };
      op(int i, R&& r) : id(i) {
        if (id == 0) inl.construct_with([&] { return unifex::connect(unifex::schedule(unifex::inline_scheduler{}), (R &&) r); });
        else ctx.construct_with([&] { auto s = world_ctx(id)->get_scheduler(); return unifex::connect(unifex::schedule(s), (R &&) r); });
      }
      op(op&&) = delete;
      ~op() { if (id == 0) inl.destruct(); else ctx.destruct(); }
      void start() noexcept { if (id == 0) unifex::start(inl.get()); else unifex::start(ctx.get()); }
    };
    template <class R>
    op<unifex::remove_cvref_t<R>> connect(R&& r) const { return op<unifex::remove_cvref_t<R>>{id, unifex::remove_cvref_t<R>((R &&) r)}; }
  };
  sender schedule() const noexcept { return sender{id}; }
  friend bool operator==(sim_sched a, sim_sched b) noexcept { return a.id == b.id; }
  friend bool operator!=(sim_sched a, sim_sched b) noexcept { return a.id != b.id; }
};

// ------------------------------------------------------------------ erasure
struct rcv_iface {
  virtual void rv_value(Val&& v) noexcept = 0;
  virtual void rv_error(std::exception_ptr e) noexcept = 0;
  virtual void rv_done() noexcept = 0;
  virtual unifex::inplace_stop_token q_stop_token() noexcept = 0;
  virtual sim_sched q_scheduler() noexcept = 0;
  virtual int q_allocator() noexcept = 0;
  virtual long q_tag() noexcept = 0;
  virtual unifex::continuation_info q_continuation() noexcept = 0;  // the receiver this erasure point forwards to (async_trace chain)

protected:
  ~rcv_iface() = default;
};

// the receiver handed to library senders below an erasure point
struct bridge {
  rcv_iface* r;
  template <class V, std::enable_if_t<std::is_same_v<std::decay_t<V>, Val>, int> = 0>
  void set_value(V&& v) && noexcept {
    Val tmp((V &&) v);  // may not throw for rvalues; lvalue copies are noexcept(false) only under fault
    r->rv_value(std::move(tmp));
  }
  void set_error(std::exception_ptr e) && noexcept { r->rv_error(std::move(e)); }
  template <class E, std::enable_if_t<!std::is_same_v<std::decay_t<E>, std::exception_ptr>, int> = 0>
  void set_error(E&& e) && noexcept { r->rv_error(std::make_exception_ptr((E &&) e)); }
  void set_done() && noexcept { r->rv_done(); }
  friend unifex::inplace_stop_token tag_invoke(unifex::tag_t<unifex::get_stop_token>, const bridge& b) noexcept { return b.r->q_stop_token(); }
  friend sim_sched tag_invoke(unifex::tag_t<unifex::get_scheduler>, const bridge& b) noexcept { return b.r->q_scheduler(); }
  friend sim_allocator<std::byte> tag_invoke(unifex::tag_t<unifex::get_allocator>, const bridge& b) noexcept { return sim_allocator<std::byte>{b.r->q_allocator()}; }
  friend long tag_invoke(get_tag_fn, const bridge& b) noexcept { return b.r->q_tag(); }
#if UNIFEX_ENABLE_CONTINUATION_VISITATIONS
  template <class F>
  friend void tag_invoke(unifex::tag_t<unifex::visit_continuations>, const bridge& b, F&& f) {
    std::invoke(f, b.r->q_continuation());
  }
#endif
};

struct op_base {
  virtual void start() noexcept = 0;
  virtual ~op_base() = default;
};
template <class S>
struct typed_op final : op_base {
  unifex::connect_result_t<S, bridge> op;
  typed_op(S&& s, bridge b) : op(unifex::connect((S &&) s, std::move(b))) {}
  void start() noexcept override { unifex::start(op); }
};

struct node_base {
  int id = -1;
  virtual op_base* connect_node(bridge b) = 0;  // may throw (user connect / allocation)
  virtual ~node_base() = default;
};

// tap record: one per (node, connect instance)
struct TapRec {
  int node = -1, inst = 0;
  TapRec* parent = nullptr;  // the parent node's instance this one was connected under
  uint64_t connect_seq = 0, start_seq = 0, start_ret_seq = 0, sig_enter = 0, sig_exit = 0, destroy_seq = 0;
  int channel = CH_NONE;
  long payload = 0;
  int start_tid = -1, sig_tid = -1;
  std::thread::id sig_thread{};
  bool started = false, completed = false, destroyed = false;
  bool aborted = false;  // the connect of this instance threw (from a nested connect): the operation never existed
};
TapRec* tap_new(int node);
void maybe_throw_on_connect(int node);  // plan-level fault: the k-th connect of a node throws
void tap_signal(TapRec* t, int ch, long payload);
void tap_signal_exit(TapRec* t);
void tap_aborted(TapRec* t, std::exception_ptr e);  // records that connecting this instance threw `e`

template <class R>
struct any_op;

struct any_snd {
  node_base* n = nullptr;
  template <template <class...> class Variant, template <class...> class Tuple>
  using value_types = Variant<Tuple<Val>>;
  template <template <class...> class Variant>
  using error_types = Variant<std::exception_ptr>;
  static constexpr bool sends_done = true;
  template <class R>
  any_op<unifex::remove_cvref_t<R>> connect(R&& r) const {
    maybe_throw_on_connect(n->id);
    return any_op<unifex::remove_cvref_t<R>>{n, (R &&) r};
  }
};

void keep_until_end_of_run(void* p, void (*del)(void*));
namespace detail {
template <class Tok>
struct token_bridge {
  // Third-party token: adapt through the library's own adapter. The adapter lives in
  // harness memory until the end of the run: an adapter's stop source must outlive a
  // request_stop() that completes (and frees) the operation from inside one of its callbacks,
  // and the harness must not create that hazard itself.
  using adapter_t = unifex::inplace_stop_token_adapter<Tok>;
  adapter_t* adapter = nullptr;
  bool subscribed = false;
  template <class R>
  unifex::inplace_stop_token get(R& r) {
    if (!subscribed) {
      {
        usim::np_scope np;
        adapter = new adapter_t();
        keep_until_end_of_run(adapter, [](void* p) { delete (adapter_t*)p; });
      }
      subscribed = true;
      tok = adapter->subscribe(unifex::get_stop_token(r));
    }
    return tok;
  }
  void release() { if (subscribed) { subscribed = false; adapter->unsubscribe(); } }
  unifex::inplace_stop_token tok;
};
template <>
struct token_bridge<unifex::inplace_stop_token> {
  template <class R>
  unifex::inplace_stop_token get(R& r) { return unifex::get_stop_token(r); }
  void release() {}
};
template <>
struct token_bridge<unifex::unstoppable_token> {
  template <class R>
  unifex::inplace_stop_token get(R&) { return unifex::inplace_stop_token{}; }
  void release() {}
};
}  // namespace detail

template <class R>
struct any_op final : rcv_iface {
  using Tok = unifex::stop_token_type_t<R&>;
  R r;
  TapRec* tap;
  op_base* inner = nullptr;
  detail::token_bridge<Tok> tb;
  // Results are handed upwards by reference to storage that belongs to THIS operation (as just()/just_error() do):
  // a parent that destroys its child operation and only then reads the reference reads freed memory.
  Val* vstore = nullptr;
  std::exception_ptr* estore = nullptr;

  any_op(node_base* n, R&& rr) : r((R &&) rr), tap(tap_new(n->id)) {
    try {
      inner = n->connect_node(bridge{this});
    } catch (...) {
      // connecting the subtree threw: this operation state never comes into existence
      tb.release();  // (a constructor below may already have asked for the stop token)
      tap_aborted(tap, std::current_exception());
      throw;
    }
  }
  any_op(any_op&&) = delete;
  ~any_op() {
    TapRec* t = tap;
    {
      usim::np_scope np;
      KIT_CHECK(!t->destroyed, "c02.double-destroy", "operation state of node %d destroyed twice", t->node);
      KIT_CHECK(!(t->started && !t->completed), "c02.child-destroyed-running", "operation state of node %d (instance %d) destroyed while started and not completed", t->node, t->inst);
      t->destroyed = true;
      t->destroy_seq = seq();
    }
    delete inner;
    tb.release();  // connected but never started (a sibling's connect threw)
    if (vstore) { vstore->~Val(); usim_free(vstore); }
    if (estore) { estore->~exception_ptr(); usim_free(estore); }
  }
  void start() noexcept {
    {
      usim::np_scope np;
      KIT_CHECK(!tap->started, "c01.leaf-restarted", "node %d instance %d started twice", tap->node, tap->inst);
      KIT_CHECK(!tap->destroyed, "c01.leaf-restarted", "node %d started after destruction", tap->node);
      tap->started = true;
      tap->start_seq = seq();
      tap->start_tid = usim_here();
    }
    TapRec* t = tap;  // *this may be destroyed by a completion inside start()
    inner->start();
    {
      usim::np_scope np;
      t->start_ret_seq = seq();
    }
  }
  // rcv_iface: signals arriving from below
  void rv_value(Val&& v) noexcept override {
    TapRec* t = tap;
    tap_signal(t, CH_VALUE, v.id);
    tb.release();
    Val* vs = ::new (usim_alloc(sizeof(Val))) Val(std::move(v));
    vstore = vs;
    unifex::set_value(std::move(r), std::move(*vs));
    tap_signal_exit(t);
  }
  void rv_error(std::exception_ptr e) noexcept override {
    TapRec* t = tap;
    long code = 0;
    try { std::rethrow_exception(e); } catch (const TestError& te) { code = te.id; } catch (const injected_throw& it) { code = it.code; } catch (const std::bad_alloc&) { code = -8000; } catch (...) { code = -9999; }
    tap_signal(t, CH_ERROR, code);
    tb.release();
    std::exception_ptr* es = ::new (usim_alloc(sizeof(std::exception_ptr))) std::exception_ptr(std::move(e));
    estore = es;
    unifex::set_error(std::move(r), std::move(*es));
    tap_signal_exit(t);
  }
  void rv_done() noexcept override {
    TapRec* t = tap;
    tap_signal(t, CH_DONE, 0);
    tb.release();
    unifex::set_done(std::move(r));
    tap_signal_exit(t);
  }
  unifex::inplace_stop_token q_stop_token() noexcept override { return tb.get(r); }
  sim_sched q_scheduler() noexcept override {
    if constexpr (unifex::is_tag_invocable_v<unifex::tag_t<unifex::get_scheduler>, const R&>) {
      if constexpr (std::is_same_v<unifex::remove_cvref_t<decltype(unifex::get_scheduler(std::declval<const R&>()))>, sim_sched>) return unifex::get_scheduler(std::as_const(r));
      else return sim_sched{-2};
    } else return sim_sched{-3};
  }
  int q_allocator() noexcept override {
    using A = unifex::remove_cvref_t<decltype(unifex::get_allocator(std::declval<const R&>()))>;
    if constexpr (std::is_same_v<A, std::allocator<std::byte>>) return -1;
    else return unifex::get_allocator(std::as_const(r)).id;
  }
  long q_tag() noexcept override { return get_tag(std::as_const(r)); }
  unifex::continuation_info q_continuation() noexcept override { return unifex::continuation_info::from_continuation(std::as_const(r)); }
};

// a node built from a factory that creates the (typed) library expression afresh on every connect
// Depth of library connect() calls on this thread that are declared noexcept although they connect a
// child inside (an exception from that child cannot propagate: std::terminate). While > 0 the harness
// injects nothing that throws; a plan-level throw there is reported instead (workload's business).
inline thread_local int tl_noexcept_connect_depth = 0;
void noexcept_connect_enter();  // workload hooks (close / restore fault windows)
void noexcept_connect_leave();

template <class Factory>
struct expr_node final : node_base {
  Factory f;
  bool noexcept_connect;
  explicit expr_node(Factory ff, bool nc = false) : f(std::move(ff)), noexcept_connect(nc) {}
  op_base* connect_node(bridge b) override {
    using S = decltype(f());
    if (!noexcept_connect) return new typed_op<S>(f(), std::move(b));
    struct Scope {
      Scope() { ++tl_noexcept_connect_depth; noexcept_connect_enter(); }
      ~Scope() { --tl_noexcept_connect_depth; noexcept_connect_leave(); }
    } scope;
    return new typed_op<S>(f(), std::move(b));
  }
};

}  // namespace kit::ex
