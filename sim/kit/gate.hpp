// Harness kit — "gates": scripted leaf senders completing with a long value,
// an error or done; inline, or later when some harness thread opens them; they
// register a stop callback on whatever token their receiver exposes and may
// answer a stop request with done. Used by the scope, future, cancel-wrapper
// and stream workloads.
#pragma once
#include <kit/base.hpp>
#include <kit/items.hpp>

#include <unifex/get_stop_token.hpp>
#include <unifex/manual_lifetime.hpp>
#include <unifex/receiver_concepts.hpp>
#include <unifex/sender_concepts.hpp>

#include <exception>

namespace kit {

struct gate_error {
  long code;
};
inline long gate_error_code(const std::exception_ptr& e) {
  try { std::rethrow_exception(e); }
  catch (const gate_error& g) { return g.code; }
  catch (const std::bad_alloc&) { return -8000; }
  catch (...) { return -9999; }
}

struct Gate {
  // plan
  int id = 0;
  int outcome = CH_VALUE;
  long payload = 0;
  int mode = 1;     // 0 completes inline in start(), 1 waits to be opened
  int on_stop = 1;  // 0 ignores stop, 1 completes with done from the stop callback
  bool no_open = false;  // never opened by an opener thread: only a stop request can complete it
  bool throw_on_connect = false;  // fault: connect() throws gate_error{-7000} (once)
  const char* oracle = "c01";
  // history
  void* op = nullptr;
  bool (*complete_fn)(Gate*, int) noexcept = nullptr;
  bool connected = false, started = false, armed = false, claimed = false, constructing = false, stop_during_construct = false,
       cb_constructed = false, destroyed = false;
  uint64_t start_seq = 0, complete_begin = 0, complete_end = 0, destroy_seq = 0;
  int delivered = CH_NONE;
  bool stop_possible = false, stop_at_start = false, stop_at_completion = false, stop_cb_ran = false;
  uint64_t stop_cb_seq = 0;
  int start_tid = -1, complete_tid = -1;
  int connects = 0;
  bool connect_threw = false;
};

template <bool SendsValue>
struct basic_gate_sender {
  Gate* g;
  template <template <class...> class Variant, template <class...> class Tuple>
  using value_types = std::conditional_t<SendsValue, Variant<Tuple<long>>, Variant<>>;
  template <template <class...> class Variant>
  using error_types = Variant<std::exception_ptr>;
  static constexpr bool sends_done = true;

  template <class R>
  struct op {
    struct cb {
      op* self;
      void operator()() noexcept { self->on_stop(); }
    };
    using cb_t = typename unifex::stop_token_type_t<R&>::template callback_type<cb>;
    R r;
    Gate* g;
    unifex::manual_lifetime<cb_t> callback;
    // the result is handed to the receiver by reference to storage owned by this operation (like just()/just_error()):
    // a parent that destroys this operation before it has consumed the reference reads freed memory
    struct Res { long v; std::exception_ptr e; };
    Res* res = nullptr;

    op(Gate* gg, R&& rr) : r((R &&) rr), g(gg) {
      usim::np_scope np;
      g->op = this;
      g->connected = true;
      g->connects++;
      g->complete_fn = &op::complete;
    }
    op(op&&) = delete;
    ~op() {
      usim::np_scope np;
      char orc[40];
      snprintf(orc, sizeof orc, "%s.child-destroyed-running", "c02");
      KIT_CHECK(!(g->started && !g->claimed), orc, "gate %d destroyed while started and not completed", g->id);
      g->destroyed = true;
      g->destroy_seq = seq();
      g->op = nullptr;
      if (res) { res->~Res(); usim_free(res); }
    }
    void start() noexcept {
      Gate* gg = g;
      auto tok = unifex::get_stop_token(r);
      bool sp = tok.stop_possible(), sr = tok.stop_requested();
      {
        usim::np_scope np;
        KIT_CHECK(!gg->started, "c01.leaf-restarted", "gate %d started twice", gg->id);
        gg->started = true;
        gg->start_seq = seq();
        gg->start_tid = usim_here();
        gg->stop_possible = sp;
        gg->stop_at_start = sr;
        KIT_TRACE("gate %d started (mode %d, stop_at_start %d)", gg->id, gg->mode, (int)sr);
      }
      if (gg->mode == 0) { complete(gg, 0); return; }
      if (sr && gg->on_stop == 1) { complete(gg, 2); return; }
      { usim::np_scope np; gg->constructing = true; }
      callback.construct(tok, cb{this});
      bool late;
      { usim::np_scope np; gg->constructing = false; gg->cb_constructed = true; late = gg->stop_during_construct; }
      if (late && gg->on_stop == 1) { complete(gg, 2); return; }
      { usim::np_scope np; gg->armed = true; }
    }
    void on_stop() noexcept {
      Gate* gg = g;
      bool during;
      { usim::np_scope np; gg->stop_cb_ran = true; gg->stop_cb_seq = seq(); during = gg->constructing; if (during) gg->stop_during_construct = true; }
      if (during) return;
      if (gg->on_stop == 1) complete(gg, 2);
    }
    // why: 0 inline, 1 opened by a harness thread, 2 stop reaction
    static bool complete(Gate* gg, int why) noexcept {
      op* self;
      {
        usim::np_scope np;
        if (gg->claimed) return false;
        if (why == 1 && !gg->armed) return false;
        gg->claimed = true;
        self = (op*)gg->op;
        gg->complete_begin = seq();
        gg->complete_tid = usim_here();
      }
      bool stopped = unifex::get_stop_token(self->r).stop_requested();
      bool had_cb;
      { usim::np_scope np; gg->stop_at_completion = stopped; had_cb = gg->cb_constructed; }
      if (had_cb) self->callback.destruct();
      int ch = why == 2 ? CH_DONE : gg->outcome;
      long payload = gg->payload;
      { usim::np_scope np; gg->delivered = ch; KIT_TRACE("gate %d completes with %s (why %d)", gg->id, ch_name(ch), why); }
      Res* rs = nullptr;
      if (ch != CH_DONE) { rs = ::new (usim_alloc(sizeof(Res))) Res{payload, ch == CH_ERROR ? std::make_exception_ptr(gate_error{payload}) : std::exception_ptr{}}; self->res = rs; }
      if (ch == CH_VALUE) {
        if constexpr (SendsValue) unifex::set_value(std::move(self->r), std::move(rs->v));
        else std::terminate();  // a no-value gate is never scripted with a value outcome
      } else if (ch == CH_ERROR) unifex::set_error(std::move(self->r), std::move(rs->e));
      else unifex::set_done(std::move(self->r));
      { usim::np_scope np; gg->complete_end = seq(); }
      return true;
    }
  };
  template <class R>
  op<unifex::remove_cvref_t<R>> connect(R&& r) const {
    if (g->throw_on_connect && !g->connect_threw) {
      { usim::np_scope np; g->connect_threw = true; }
      throw gate_error{-7000};
    }
    return op<unifex::remove_cvref_t<R>>{g, unifex::remove_cvref_t<R>((R &&) r)};
  }
};

using gate_sender = basic_gate_sender<true>;
using gate_done_sender = basic_gate_sender<false>;  // cleanup()-style senders: done or error only

inline bool gate_open(Gate* g) { return g->complete_fn ? g->complete_fn(g, 1) : false; }

// a thread body that opens every armed gate of `gates[0..n)` (after its delay) until *stop_flag is set
struct gate_opener {
  Gate* gates;
  int n;
  volatile int* finished;  // set by the workload when no gate will be started any more
  int delay;
  Gate* pick = nullptr;
  static int pred(void* p) {
    auto* q = (gate_opener*)p;
    q->pick = nullptr;
    for (int i = 0; i < q->n; ++i)
      if (q->gates[i].mode == 1 && q->gates[i].armed && !q->gates[i].claimed && !q->gates[i].no_open) { q->pick = &q->gates[i]; return 1; }
    return *q->finished ? 1 : 0;
  }
  void run() {
    for (;;) {
      usim_wait(&pred, this);
      if (!pick) return;
      yields(delay);
      gate_open(pick);
    }
  }
};

}  // namespace kit
