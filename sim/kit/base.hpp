// Harness kit — basics shared by all workloads (compiled WITH instrumentation).
#pragma once
#include <rt/usim.h>

#include <cstdint>
#include <cstdio>
#include <cstdlib>
#include <cstring>
#include <memory>
#include <new>
#include <thread>
#include <utility>
#include <vector>

namespace kit {

#define KIT_CHECK(cond, oracle, ...)                  \
  do {                                                \
    if (!(cond)) usim_report(oracle, __VA_ARGS__);    \
  } while (0)

// malloc-backed allocator: harness containers stay out of the arena
template <class T>
struct hallocator {
  using value_type = T;
  hallocator() = default;
  template <class U>
  hallocator(const hallocator<U>&) {}
  T* allocate(size_t n) { return (T*)malloc(n * sizeof(T)); }
  void deallocate(T* p, size_t) { free(p); }
  template <class U>
  bool operator==(const hallocator<U>&) const { return true; }
  template <class U>
  bool operator!=(const hallocator<U>&) const { return false; }
};
template <class T>
using hvec = std::vector<T, hallocator<T>>;

inline int draw(int n) { return (int)usim_draw((uint64_t)n); }
inline int draw_range(int lo, int hi) { return lo + (int)usim_draw((uint64_t)(hi - lo + 1)); }
inline bool draw_bool() { return usim_draw(2) != 0; }
// small numbers much more likely than big ones; 0 stays the simplest
inline int draw_small(int n) {
  int a = draw(n), b = draw(n);
  return a < b ? a : b;
}

inline uint64_t seq() { return usim_seq(); }

// debugging aid for replays: --param trace=1 prints harness events (never used by oracles)
inline bool tracing() {
  static int on = -1;
  if (on < 0) on = usim_param_int("trace", 0) ? 1 : 0;
  return on == 1;
}
#define KIT_TRACE(...)                                                         \
  do {                                                                         \
    if (kit::tracing()) {                                                      \
      usim::np_scope np__;                                                     \
      fprintf(stderr, "[T%d step %llu] ", usim_here(), (unsigned long long)usim_step()); \
      fprintf(stderr, __VA_ARGS__);                                            \
      fputc('\n', stderr);                                                     \
    }                                                                          \
  } while (0)

// An object living alone in a poisoned arena block, so that any touch after
// destroy() lands on freed shadow memory.
template <class T>
struct arena_box {
  T* p = nullptr;
  void* raw = nullptr;
  template <class... A>
  T& construct(A&&... a) {
    raw = usim_alloc(sizeof(T));
    try { p = ::new (raw) T((A &&) a...); } catch (...) { usim_free(raw); raw = nullptr; throw; }
    return *p;
  }
  template <class F>
  T& construct_with(F&& f) {
    raw = usim_alloc(sizeof(T));
    try { p = ::new (raw) T(((F &&) f)()); } catch (...) { usim_free(raw); raw = nullptr; throw; }
    return *p;
  }
  void destroy() {
    T* q = p;
    void* r = raw;
    p = nullptr;
    raw = nullptr;
    q->~T();
    usim_free(r);
  }
  bool alive() const { return p != nullptr; }
  T* operator->() { return p; }
  T& operator*() { return *p; }
};

// yields n times (scheduling noise under program control)
inline void yields(int n) {
  for (int i = 0; i < n; ++i) usim_point();
}

struct flag_wait {
  static int pred(void* p) { return *(volatile int*)p != 0; }
};
inline void wait_flag(volatile int* f) { usim_wait(&flag_wait::pred, (void*)f); }
struct count_wait {
  volatile int* c;
  int target;
  static int pred(void* p) {
    auto* w = (count_wait*)p;
    return *w->c >= w->target;
  }
};
inline void wait_count(volatile int* c, int target) {
  count_wait w{c, target};
  usim_wait(&count_wait::pred, &w);
}

}  // namespace kit
