"""Build cache for the usim workloads.

Everything is rebuilt from /repo's *current working tree*: the cache key is a
content hash of /repo/include and /repo/source (plus the simulator sources and
flags), so any edit to /repo produces new objects.  Nothing lives under /tmp.
"""
import fcntl
import hashlib
import os
import shutil
import subprocess
import sys
import time
from concurrent.futures import ThreadPoolExecutor

VERIF = os.path.dirname(os.path.dirname(os.path.abspath(__file__)))
REPO = os.environ.get("VERIF_REPO", "/repo")
BUILD_ROOT = os.path.join(VERIF, ".build")
CXX = os.environ.get("VERIF_CXX", "g++")
JOBS = int(os.environ.get("VERIF_JOBS", "16"))

LIB_SOURCES = [
    "async_auto_reset_event.cpp", "async_manual_reset_event_v1.cpp", "async_manual_reset_event_v2.cpp",
    "async_mutex_v1.cpp", "async_mutex_v2.cpp", "async_pass.cpp", "async_stack.cpp",
    "atomic_intrusive_list.cpp", "exception.cpp", "inplace_stop_token.cpp", "manual_event_loop.cpp",
    "static_thread_pool.cpp", "task.cpp", "thread_unsafe_event_loop.cpp",
    "timed_single_thread_context.cpp", "trampoline_scheduler.cpp",
    "linux/mmap_region.cpp", "linux/monotonic_clock.cpp", "linux/safe_file_descriptor.cpp",
    "linux/io_epoll_context.cpp", "linux/io_uring_context.cpp", "linux/io_uring_syscall.cpp",
]
RT_SOURCES = ["sched.cpp", "tsan_abi.cpp", "pthread_shim.cpp", "arena.cpp", "crash.cpp", "main.cpp"]
RT_OPTIONAL = {"fdlayer": "fdlayer.cpp", "uring": "uring_model.cpp"}

# build configurations: name -> (std, extra defines)
CONFIGS = {
    "S20d": ["-std=c++20"],                       # C++20, assertions + async stacks on (default)
    "S17r": ["-std=c++17", "-DNDEBUG"],           # the shipped configuration
    "S20r": ["-std=c++20", "-DNDEBUG"],
    "S17d": ["-std=c++17"],
    "S20dv": ["-std=c++20", "-DUNIFEX_ENABLE_CONTINUATION_VISITATIONS=1"],
    # (with_query_value.hpp uses visit_continuations without including async_trace.hpp; in debug builds the
    #  async-stack headers pull it in, in NDEBUG+CV builds the user has to: force-include it here)
    "S17rv": ["-std=c++17", "-DNDEBUG", "-DUNIFEX_ENABLE_CONTINUATION_VISITATIONS=1", "-include", "unifex/async_trace.hpp"],
    "S20rv": ["-std=c++20", "-DNDEBUG", "-DUNIFEX_ENABLE_CONTINUATION_VISITATIONS=1", "-include", "unifex/async_trace.hpp"],
    "S17dv": ["-std=c++17", "-DUNIFEX_ENABLE_CONTINUATION_VISITATIONS=1"],
}
SIM_FLAGS = ["-O1", "-g1", "-fno-omit-frame-pointer", "-fsanitize=thread", "--param",
             "tsan-instrument-func-entry-exit=0", "-Wno-tsan", "-pthread"]
RT_FLAGS = ["-std=c++20", "-O2", "-g1", "-fno-omit-frame-pointer", "-pthread"]


def _hash_files(paths):
    h = hashlib.sha1()
    for p in sorted(paths):
        h.update(p.encode())
        try:
            with open(p, "rb") as f:
                h.update(hashlib.sha1(f.read()).digest())
        except OSError:
            h.update(b"<missing>")
    return h.hexdigest()


def _walk(root, skip=("win32",)):
    out = []
    for d, dirs, files in os.walk(root):
        dirs[:] = [x for x in dirs if x not in skip]
        for f in files:
            if f.endswith((".hpp", ".h", ".cpp", ".inl")):
                out.append(os.path.join(d, f))
    return out


_tree_hash_cache = {}


def repo_tree_hash():
    if "h" not in _tree_hash_cache:
        files = _walk(os.path.join(REPO, "include")) + _walk(os.path.join(REPO, "source"))
        _tree_hash_cache["h"] = _hash_files(files)[:16]
    return _tree_hash_cache["h"]


def sim_hash():
    files = _walk(os.path.join(VERIF, "sim"))
    return _hash_files(files)[:12]


class BuildError(Exception):
    pass


def _run(cmd, log):
    p = subprocess.run(cmd, stdout=subprocess.PIPE, stderr=subprocess.STDOUT, text=True)
    if p.returncode != 0:
        with open(log, "w") as f:
            f.write(" ".join(cmd) + "\n" + p.stdout)
        raise BuildError("command failed: %s\n%s" % (" ".join(cmd), p.stdout[-6000:]))
    return p.stdout


def _compile_many(jobs):
    """jobs: list of (cmd, out, log). Compiles the missing ones in parallel."""
    todo = [j for j in jobs if not os.path.exists(j[1])]
    if not todo:
        return 0

    def one(j):
        cmd, out, log = j
        tmp = out + ".tmp%d" % os.getpid()
        _run(cmd + ["-o", tmp], log)
        os.replace(tmp, out)

    with ThreadPoolExecutor(max_workers=JOBS) as ex:
        list(ex.map(one, todo))
    return len(todo)


def _prune(keep):
    """Bound disk use: keep the build dirs of at most 3 repo trees (LRU)."""
    try:
        dirs = [os.path.join(BUILD_ROOT, d) for d in os.listdir(BUILD_ROOT) if os.path.isdir(os.path.join(BUILD_ROOT, d))]
    except OSError:
        return
    import re as _re
    trees = [d for d in dirs if _re.fullmatch(r"[0-9a-f]{16}", os.path.basename(d)) and os.path.basename(d) != keep]
    trees.sort(key=lambda d: os.path.getmtime(d), reverse=True)
    for d in trees[3:]:
        shutil.rmtree(d, ignore_errors=True)
    rts = [d for d in dirs if os.path.basename(d).startswith("rt_") and os.path.basename(d) != "rt_" + sim_hash()]
    rts.sort(key=lambda d: os.path.getmtime(d), reverse=True)
    for d in rts[2:]:
        shutil.rmtree(d, ignore_errors=True)


def build(workload_src, config="S20d", extra_rt=(), quiet=False):
    """Returns the path of the workload executable built against /repo's current tree.

    workload_src: file name under /verif/workloads (e.g. 'w_stop.cpp')
    extra_rt: optional runtime parts ('fdlayer', 'uring')
    """
    th = repo_tree_hash()
    sh = sim_hash()
    root = os.path.join(BUILD_ROOT, th)
    cdir = os.path.join(root, config)
    os.makedirs(cdir, exist_ok=True)
    os.utime(root, None)
    lock = open(os.path.join(BUILD_ROOT, ".lock"), "w")
    fcntl.flock(lock, fcntl.LOCK_EX)
    t0 = time.time()
    try:
        _prune(th)
        cfg = CONFIGS[config]
        inc = ["-I" + os.path.join(REPO, "include"), "-I" + os.path.join(VERIF, "sim"),
               "-include", os.path.join(VERIF, "sim/rt/usim_assert.h")]
        simflags = cfg + SIM_FLAGS + inc
        flag_id = hashlib.sha1((" ".join(simflags) + sh_assert()).encode()).hexdigest()[:8]
        jobs = []
        libobjs = []
        for s in LIB_SOURCES:
            out = os.path.join(cdir, "lib_%s_%s.o" % (s.replace("/", "_")[:-4], flag_id))
            libobjs.append(out)
            jobs.append(([CXX] + simflags + ["-c", os.path.join(REPO, "source", s)], out, out + ".log"))
        rtobjs = []
        rtdir = os.path.join(BUILD_ROOT, "rt_" + sh)
        os.makedirs(rtdir, exist_ok=True)
        rts = list(RT_SOURCES) + [RT_OPTIONAL[x] for x in extra_rt]
        for s in rts:
            out = os.path.join(rtdir, s[:-4] + ".o")
            rtobjs.append(out)
            jobs.append(([CXX] + RT_FLAGS + ["-I" + os.path.join(VERIF, "sim"), "-c", os.path.join(VERIF, "sim/rt", s)], out, out + ".log"))
        wpath = os.path.join(VERIF, "workloads", workload_src)
        wh = _hash_files([wpath])[:10]
        wname = os.path.splitext(os.path.basename(workload_src))[0]
        wobj = os.path.join(cdir, "%s_%s_%s_%s.o" % (wname, wh, sh, flag_id))
        jobs.append(([CXX] + simflags + ["-I" + os.path.join(VERIF, "workloads"), "-c", wpath], wobj, wobj + ".log"))
        n = _compile_many(jobs)
        exe = os.path.join(cdir, "%s_%s_%s_%s%s" % (wname, wh, sh, flag_id, "".join("_" + x for x in extra_rt)))
        if not os.path.exists(exe):
            tmp = exe + ".tmp%d" % os.getpid()
            _run([CXX, "-o", tmp, wobj] + libobjs + rtobjs + ["-rdynamic", "-ldl", "-pthread"], exe + ".log")
            os.replace(tmp, exe)
            # drop stale executables/objects of the same workload in this dir
            for f in os.listdir(cdir):
                if f.startswith(wname + "_") and not f.startswith(os.path.basename(exe)) and not f.startswith(os.path.basename(wobj)):
                    try:
                        os.remove(os.path.join(cdir, f))
                    except OSError:
                        pass
        if not quiet and n:
            sys.stderr.write("[vbuild] %s/%s: compiled %d objects in %.1fs (tree %s)\n" % (config, wname, n, time.time() - t0, th))
        return exe
    finally:
        fcntl.flock(lock, fcntl.LOCK_UN)
        lock.close()


def sh_assert():
    return _hash_files([os.path.join(VERIF, "sim/rt/usim_assert.h")])[:8]


if __name__ == "__main__":
    os.makedirs(BUILD_ROOT, exist_ok=True)
    cfg = sys.argv[2] if len(sys.argv) > 2 else "S20d"
    extra = tuple(sys.argv[3].split(",")) if len(sys.argv) > 3 and sys.argv[3] else ()
    try:
        print(build(sys.argv[1], cfg, extra))
    except BuildError as e:
        sys.stderr.write(str(e) + "\n")
        sys.exit(2)
