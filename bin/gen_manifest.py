#!/usr/bin/env python3
"""Regenerates /verif/MANIFEST.json from bin/props.py (claimed checks) and bin/na.py (not claimed)."""
import json, os, sys
HERE = os.path.dirname(os.path.abspath(__file__))
sys.path.insert(0, HERE)
import props, na
VERIF = os.path.dirname(HERE)
checks = []
for pid in sorted(props.PROPS):
    P = props.PROPS[pid]
    checks.append(dict(
        property_id=pid,
        quick_cmd="bin/vcheck %s --tier quick" % pid,
        thorough_cmd="bin/vcheck %s --tier thorough" % pid,
        evidence_file="/verif/evidence/%s.json" % pid,
        replay_cmd_template="bin/vcheck --replay {path}",
        engine="usim",
        technique="deterministic simulation with fault injection: seeded schedule/fault search over real library code on baton-scheduled threads, invariant and history oracles, gated replay + ddmin",
        level_claimed=dict(category="exploration", text=P["level_text"], design_ref=P.get("design_ref", "DESIGN.md §8 " + pid)),
        level_note=P["level_note"],
    ))
m = dict(
    version=1,
    setup_cmd="bin/vcheck build-all",
    hooks=dict(guard="UNIFEX_VERIF", enable="none needed: the seam is the compiler flag -fsanitize=thread (served by /verif/sim/rt, no libtsan) plus link-time interposition of pthread/clock/libc symbols; no source hook exists in /repo",
               baseline_off_cmd="cmake --build /repo/_build -j16 && ctest --test-dir /repo/_build -j8 --timeout 900",
               source_commits=[], add_only=True),
    engines=[dict(name="usim", path="/verif/sim", serves_properties=sorted(props.PROPS),
                  kind_free_text="deterministic simulator: real threads under one baton, every std::atomic/pthread/clock/syscall operation a seeded scheduling point (tsan ABI + symbol interposition), simulated clock, arena allocator with shadow memory, fault injection, record/replay, ddmin")],
    checks=checks,
    not_applicable=[dict(property_id=k, reason=v) for k, v in sorted(na.NOT_CLAIMED.items()) if k not in props.PROPS],
    notes="See DESIGN.md. Checks rebuild the instrumented library from /repo's working tree (content-hashed cache under /verif/.build). Exit 2 = infrastructure error (never a verdict).",
)
json.dump(m, open(os.path.join(VERIF, "MANIFEST.json"), "w"), indent=1)
print("MANIFEST.json: %d checks, %d not claimed" % (len(checks), len(m["not_applicable"])))
