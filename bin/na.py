"""Properties not (yet) claimed, with the reason. Kept current as checks are added."""
NOT_CLAIMED = {
    "C10": "not built: the coroutine interpreter (task/at_coroutine_exit/await_transform under the simulator) does not exist yet; nothing is claimed",
    "C11": "not built as a check of its own: only the via/on context oracle (c11.via) and the v2 mutex/event/async_pass completion-context oracles exist inside other checks; the coroutine part and the static-trait matrix are missing, so the property is not claimed",
    "C14": "not built: the fd layer (epoll on the real kernel with virtual timerfd) and the io_uring kernel model planned in DESIGN.md 2.6 do not exist yet; nothing is claimed",
    "C20": "not built: only two configurations (C++20 debug and C++17/C++20 NDEBUG) are run per property; the cross-configuration trace comparison and the async-stack balance oracles do not exist",
}
