"""Properties not claimed, with the reason. Kept current as checks are added."""
NOT_CLAIMED = {}
