"""Properties not (yet) claimed, with the reason. Kept current as checks are added."""
NOT_CLAIMED = {
    "C14": "not built: the fd layer (epoll on the real kernel with virtual timerfd) and the io_uring kernel model planned in DESIGN.md 2.6 do not exist yet; nothing is claimed",
    "C20": "not built: only two configurations (C++20 debug and C++17/C++20 NDEBUG) are run per property; the cross-configuration trace comparison and the async-stack balance oracles do not exist",
}
