"""Properties not (yet) claimed, with the reason. Kept current as checks are added."""
NOT_CLAIMED = {
    "C14": "not built: the fd layer (epoll on the real kernel with virtual timerfd) and the io_uring kernel model planned in DESIGN.md 2.6 do not exist yet; nothing is claimed",
}
