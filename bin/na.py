"""Properties not (yet) claimed, with the reason. Kept current as checks are added."""
NB = "not built yet in this round: the simulator workload for this property does not exist yet (see DESIGN.md §13 for the order); nothing is claimed"
NOT_CLAIMED = {("C%02d" % i): NB for i in range(1, 21)}
