"""Property table: which workloads decide which property, with which oracles.

A *batch* is one (workload binary, workload name, build configuration, params)
explored for a time budget.  `oracles` lists the oracle-id prefixes that decide
the property in that batch; any other oracle that trips is reported as a NOTE
(it belongs to another property's check) and does not affect the exit code.
"""

# oracle ids raised by the runtime itself
RT_MEM = ["mem."]                      # touch-after-free, out-of-bounds, double-free, bad-free, leak, wild-access
RT_LIVE = ["sim.deadlock", "sim.livelock"]
RT_LIB = ["lib.assert", "lib.abort", "lib.terminate"]
RT_ALL = RT_MEM + RT_LIVE + RT_LIB


def B(src, name, cfg="S20d", quick=8, thorough=60, params="", rt=(), oracles=(), weight=1.0):
    return dict(src=src, name=name, cfg=cfg, quick=quick, thorough=thorough, params=params, rt=tuple(rt),
                oracles=list(oracles), weight=weight)


# workload name -> (source file, extra runtime parts); used by --replay
WORKLOADS = {
    "stop_basic": ("w_stop.cpp", ()),
    "stop_adapter": ("w_stop.cpp", ()),
}

PROPS = {
    "C03": dict(
        title="Stop-token protocol",
        batches=[
            B("w_stop.cpp", "stop_basic", quick=10, thorough=150, oracles=["c03."] + RT_ALL),
            B("w_stop.cpp", "stop_adapter", quick=6, thorough=90, oracles=["c03.", "c04.live-registration"] + RT_ALL),
            B("w_stop.cpp", "stop_basic", cfg="S17r", quick=5, thorough=60, oracles=["c03."] + RT_ALL),
        ],
        level_text=("Seeded exploration of schedules (random-walk, PCT, non-preemptive) and faults (spurious weak-CAS failure) over the "
                    "real inplace_stop_source/callback/adapter/fused code with 1-3 registrars, 0-3 concurrent request_stop() callers, callbacks "
                    "that deregister themselves, deregister other callbacks or register new ones; invariant oracles (at most once, never after "
                    "deregistration returned, never concurrently) plus history oracles (interval rule, exactly one first requester, "
                    "stop_requested monotone), shadow memory on individually freed callback blocks, deadlock/livelock detection."),
        level_note=("Trusted: the usim scheduler/pthread stubs and gcc's tsan instrumentation; sequentially consistent memory only; "
                    "sampling, not proof. Both the C++20 debug and the shipped C++17 NDEBUG configuration are explored."),
        real=["unifex::inplace_stop_source/token/callback (source/inplace_stop_token.cpp)", "inplace_stop_token_adapter(_subscription)",
              "fused_stop_source", "spin_wait", "libstdc++ std::thread above pthread_create"],
        stub=["pthread_create/join, sched_yield (usim)", "heap (usim arena)", "kit::sim_stop_source (harness third-party token)"],
    ),
}
