"""Property table: which workloads decide which property, with which oracles.

A *batch* is one (workload binary, workload name, build configuration, params)
explored for a time budget.  `oracles` lists the oracle-id prefixes that decide
the property in that batch; any other oracle that trips is reported as a NOTE
(it belongs to another property's check) and does not affect the exit code.
"""

# oracle ids raised by the runtime itself
RT_MEM = ["mem."]                      # touch-after-free, out-of-bounds, double-free, bad-free, leak, wild-access
RT_LIVE = ["sim.deadlock", "sim.livelock"]
RT_LIB = ["lib.assert", "lib.abort", "lib.terminate"]
RT_ALL = RT_MEM + RT_LIVE + RT_LIB


def B(src, name, cfg="S20d", quick=8, thorough=60, params="", rt=(), oracles=(), weight=1.0):
    return dict(src=src, name=name, cfg=cfg, quick=quick, thorough=thorough, params=params, rt=tuple(rt),
                oracles=list(oracles), weight=weight)


# workload name -> (source file, extra runtime parts); used by --replay
WORKLOADS = {
    "stop_basic": ("w_stop.cpp", ()),
    "stop_adapter": ("w_stop.cpp", ()),
    "sched_manual": ("w_sched.cpp", ()),
    "sched_single": ("w_sched.cpp", ()),
    "sched_pool": ("w_sched.cpp", ()),
    "sched_timed": ("w_sched.cpp", ()),
    "sched_newthread": ("w_sched.cpp", ()),
    "sched_trampoline": ("w_sched.cpp", ()),
    "timer_thread": ("w_timer.cpp", ()),
    "timer_unsafe": ("w_timer.cpp", ()),
    "mutex_v1": ("w_mutex.cpp", ()),
    "mutex_v2": ("w_mutex.cpp", ()),
    "event_v1": ("w_event.cpp", ()),
    "event_v2": ("w_event.cpp", ()),
    "event_auto": ("w_event.cpp", ()),
    "pass": ("w_event.cpp", ()),
    "expr": ("w_expr.cpp", ()),
    "scope_v2": ("w_scope.cpp", ()),
    "scope_v1": ("w_scope.cpp", ()),
    "scope_v0": ("w_scope.cpp", ()),
    "cancel_detach": ("w_cancel.cpp", ()),
    "cancel_sor": ("w_cancel.cpp", ()),
    "cancel_raw": ("w_cancel.cpp", ()),
    "cancel_canary": ("w_cancel.cpp", ()),
    "create": ("w_create.cpp", ()),
    "bulk": ("w_bulk.cpp", ()),
    "find_if": ("w_bulk.cpp", ()),
    "stream": ("w_stream.cpp", ()),
    "streamlib": ("w_streamlib.cpp", ()),
    "any_object": ("w_erase.cpp", ()),
    "any_unique": ("w_erase.cpp", ()),
    "traits": ("w_traits.cpp", ()),
    "anysnd_sim": ("w_anysnd.cpp", ()),
    "anysnd_inplace": ("w_anysnd.cpp", ()),
    "anysched_sim": ("w_anysnd.cpp", ()),
    "anysched_inplace": ("w_anysnd.cpp", ()),
    "coro": ("w_coro.cpp", ()),
    "io_epoll": ("w_io.cpp", ("fdlayer", "uring")),
    "io_uring": ("w_io.cpp", ("fdlayer", "uring")),
    "io_uring_flood": ("w_io.cpp", ("fdlayer", "uring")),
    "io_epoll_wfull": ("w_io.cpp", ("fdlayer", "uring")),
}

PROPS = {
    "C03": dict(
        title="Stop-token protocol",
        batches=[
            B("w_stop.cpp", "stop_basic", quick=10, thorough=150, oracles=["c03."] + RT_ALL),
            B("w_stop.cpp", "stop_adapter", quick=6, thorough=90, oracles=["c03.", "c04.live-registration"] + RT_ALL),
            B("w_stop.cpp", "stop_basic", cfg="S17r", quick=5, thorough=60, oracles=["c03."] + RT_ALL),
        ],
        level_text=("Seeded exploration of schedules (random-walk, PCT, non-preemptive) and faults (spurious weak-CAS failure) over the "
                    "real inplace_stop_source/callback/adapter/fused code with 1-3 registrars, 0-3 concurrent request_stop() callers, callbacks "
                    "that deregister themselves, deregister other callbacks or register new ones; invariant oracles (at most once, never after "
                    "deregistration returned, never concurrently) plus history oracles (interval rule, exactly one first requester, "
                    "stop_requested monotone), shadow memory on individually freed callback blocks, deadlock/livelock detection."),
        level_note=("Trusted: the usim scheduler/pthread stubs and gcc's tsan instrumentation; sequentially consistent memory only; "
                    "sampling, not proof. Both the C++20 debug and the shipped C++17 NDEBUG configuration are explored."),
        real=["unifex::inplace_stop_source/token/callback (source/inplace_stop_token.cpp)", "inplace_stop_token_adapter(_subscription)",
              "fused_stop_source", "spin_wait", "libstdc++ std::thread above pthread_create"],
        stub=["pthread_create/join, sched_yield (usim)", "heap (usim arena)", "kit::sim_stop_source (harness third-party token)"],
    ),
    "C06": dict(
        title="Schedulers lose nothing and run on their own context",
        batches=[
            B("w_sched.cpp", "sched_manual", quick=6, thorough=90, oracles=["c06."] + RT_ALL),
            B("w_sched.cpp", "sched_single", quick=5, thorough=60, oracles=["c06."] + RT_ALL),
            B("w_sched.cpp", "sched_pool", quick=6, thorough=90, oracles=["c06."] + RT_ALL),
            B("w_sched.cpp", "sched_timed", quick=5, thorough=60, oracles=["c06."] + RT_ALL),
            B("w_sched.cpp", "sched_newthread", quick=4, thorough=60, oracles=["c06."] + RT_ALL),
            B("w_sched.cpp", "sched_trampoline", quick=3, thorough=30, oracles=["c06."] + RT_ALL),
            B("w_sched.cpp", "sched_pool", cfg="S17r", quick=4, thorough=45, oracles=["c06."] + RT_ALL),
        ],
        level_text=("Seeded exploration of schedules and faults (spurious condition-variable wake-ups, spurious weak-CAS failures, clock jitter) "
                    "over the real execution contexts: 1-4 producer threads start 1-9 schedule() operations each (some with a stop request before "
                    "start, right after start, or later) while the context's workers run, go idle, wake up and are told to stop after the last "
                    "start() returned. Oracles: exactly one completion per item, completion on a thread of the context, done only after a stop "
                    "request and value never after a stop requested before start, nothing lost (deadlock detection and end-of-run census), FIFO on "
                    "single-threaded loops, trampoline nesting depth and drain, destructor joins every thread, no touch of a freed op state."),
        level_note=("Trusted: usim stubs for pthread mutex/condvar/create/join and the clock; sequential consistency; sampling. thread_unsafe_event_loop "
                    "is covered by the C07 check (it is a timer loop)."),
        real=["manual_event_loop", "single_thread_context", "static_thread_pool", "timed_single_thread_context", "new_thread_context",
              "trampoline_scheduler", "inline_scheduler", "inplace_stop_source", "libstdc++ std::thread/std::mutex/std::condition_variable wrappers"],
        stub=["pthread mutex/cond/create/join (usim)", "clock_gettime (simulated clock)", "heap (usim arena)"],
    ),
    "C07": dict(
        title="Timers: never early, due-time order, prompt single cancellation",
        batches=[
            B("w_timer.cpp", "timer_thread", quick=10, thorough=150, oracles=["c07."] + RT_ALL),
            B("w_timer.cpp", "timer_unsafe", quick=5, thorough=60, oracles=["c07."] + RT_ALL),
            B("w_timer.cpp", "timer_thread", cfg="S17r", quick=5, thorough=60, oracles=["c07."] + RT_ALL),
            B("w_io.cpp", "io_epoll", rt=("fdlayer", "uring"), quick=6, thorough=90, oracles=["c07."] + RT_ALL),
            B("w_io.cpp", "io_uring", rt=("fdlayer", "uring"), quick=6, thorough=90, oracles=["c07."] + RT_ALL),
            B("w_io.cpp", "io_epoll", cfg="S17r", rt=("fdlayer", "uring"), quick=4, thorough=60, oracles=["c07."] + RT_ALL),
            B("w_io.cpp", "io_uring", cfg="S17r", rt=("fdlayer", "uring"), quick=4, thorough=60, oracles=["c07."] + RT_ALL),
        ],
        level_text=("Seeded exploration over the real timed_single_thread_context and thread_unsafe_event_loop on a simulated clock: 1-10 timers "
                    "(schedule_at / schedule_after) with due times drawn from {past, now, equal pairs, near, 1 s, 1 h}, submitted from 1-3 threads "
                    "and from inside other timers' completions, each optionally cancelled before start, right after start, from a racing stopper "
                    "thread or from inside another completion; faults: clock jitter, spurious wake-ups, stalled threads (clock jumps while "
                    "runnable), spurious weak-CAS failure. Oracles: never early against the scheduler's clock, due-time and tie order among "
                    "untouched timers, prompt cancellation (done before the due time when stopped >2 ms earlier and no stall fault), exactly one "
                    "completion, op state freed inside the completion (any later reference by the context is a shadow hit), empty queue at destruction."),
        level_note=("Trusted: usim clock/condvar stubs. Not decided here: the clause 'time_point arithmetic is exact and totally ordered for all "
                    "representable operands' is a pure function of its operands (no schedule, clock or fault): only incidentally exercised. "
                    "io_epoll_context timers (schedule_at on a virtual timerfd) and io_uring_context timers (IORING_OP_TIMEOUT / TIMEOUT_REMOVE on the "
                    "in-process ring model, a stub) are checked on the C14 workloads."),
        real=["timed_single_thread_context (+cancel_callback)", "thread_unsafe_event_loop (+sync_wait driver)", "inplace_stop_source",
              "libstdc++ std::condition_variable::wait_until / this_thread::sleep_until wrappers"],
        stub=["clock_gettime/nanosleep/pthread_cond_clockwait on the simulated clock", "pthread mutex/cond/create/join (usim)", "heap (usim arena)"],
    ),
    "C15": dict(
        title="async_mutex: mutual exclusion, no lost waiter, clean cancellation",
        batches=[
            B("w_mutex.cpp", "mutex_v2", quick=12, thorough=180, oracles=["c15."] + RT_ALL),
            B("w_mutex.cpp", "mutex_v1", quick=6, thorough=90, oracles=["c15."] + RT_ALL),
            B("w_mutex.cpp", "mutex_v2", cfg="S20r", quick=5, thorough=60, oracles=["c15."] + RT_ALL),
        ],
        level_text=("Seeded exploration over the real v1 and v2 async_mutex: 2-5 lockers on their own threads run 1-4 rounds of async_lock / "
                    "try_lock, a critical section and unlock; v2 waiters complete on an inline scheduler, a shared single_thread_context or one "
                    "context per locker and may be cancelled before start or by a racing stopper thread (before enqueue, while queued, already "
                    "popped). Oracles: at most one holder at every acquisition, every started uncancelled lock completes exactly once (deadlock = "
                    "lost waiter), a cancelled waiter never holds and the lock is free once everybody unlocked (try_lock succeeds), v2 grants in "
                    "queue order under the non-overlap rule, completion on the waiter's scheduler, operation states freed right after completion "
                    "(shadow memory)."),
        level_note=("Trusted: usim stubs; sequential consistency only, so the Dekker fences of the v2 mutex are not stressed beyond SC. C++20 "
                    "debug and C++20 NDEBUG configurations (v2 needs C++20)."),
        real=["unifex::v1::async_mutex + atomic_intrusive_queue", "unifex::v2::async_mutex + atomic_intrusive_list + cancellable + completion_forwarder",
              "manual_event_loop/single_thread_context, inline_scheduler", "inplace_stop_source"],
        stub=["pthread layer, heap (usim)"],
    ),
    "C16": dict(
        title="Events and async_pass: every waiter woken once, atomic rendezvous",
        batches=[
            B("w_event.cpp", "event_v2", quick=8, thorough=120, oracles=["c16."] + RT_ALL),
            B("w_event.cpp", "event_v1", quick=5, thorough=90, oracles=["c16."] + RT_ALL),
            B("w_event.cpp", "event_auto", quick=5, thorough=60, oracles=["c16."] + RT_ALL),
            B("w_event.cpp", "pass", quick=8, thorough=120, oracles=["c16."] + RT_ALL),
            B("w_event.cpp", "event_v1", cfg="S17r", quick=4, thorough=45, oracles=["c16."] + RT_ALL),
        ],
        level_text=("Seeded exploration over the real v1/v2 async_manual_reset_event (1-5 waiters on their own threads, 1-2 setter threads "
                    "running scripts of set/reset/ready, cancellable v2 waits stopped before start or by a racing stopper, a final set() after "
                    "which late waits must complete without further help), the async_auto_reset_event stream (sequential next() against a "
                    "setter and a stopper) and nothrow_async_pass<long> (one caller and one acceptor thread doing async_call / try_call / "
                    "async_accept / try_accept rounds with unique payloads and racing stop requests). Oracles: every wait completes exactly "
                    "once and is never stranded (deadlock detection), a value completion is justified by a set() that could reach it (reset "
                    "rule), auto-reset delivers at most one element per set() and stays done, each value-completed call's payload is received "
                    "by exactly one accept in order and the pass ends idle, value completions arrive on the waiter's scheduler thread, op "
                    "states are freed right after completion (shadow memory)."),
        level_note=("Trusted: usim stubs; sequential consistency. async_throw and the throwing async_pass variant are not driven; only one "
                    "pending caller and one pending acceptor at a time (the API's contract)."),
        real=["v1/v2 async_manual_reset_event", "async_auto_reset_event (+let_value_with_stop_token, let_value_with, just_void_or_done)",
              "async_pass (nothrow_async_pass<long>) + cancellable + completion_forwarder", "atomic_intrusive_list", "single_thread_context, inline_scheduler"],
        stub=["pthread layer, heap (usim)"],
    ),
    "C01": dict(
        title="Exactly-once completion, never before start",
        batches=[
            B("w_expr.cpp", "expr", quick=14, thorough=240, params="faults=1", oracles=["c01."] + RT_LIVE),
            B("w_expr.cpp", "expr", quick=8, thorough=120, params="faults=0", oracles=["c01."] + RT_LIVE),
            B("w_expr.cpp", "expr", quick=6, thorough=90, params="faults=1,more=2,wany=1", oracles=["c01."] + RT_LIVE),
            B("w_expr.cpp", "expr", quick=4, thorough=60, params="faults=1,syncw=1,more=2", oracles=["c01."] + RT_LIVE),  # a third of the runs consume the expression with sync_wait()
            # timers: a started schedule_after/schedule_at operation completes exactly once whatever is cancelled around it (lost completion = deadlock)
            B("w_timer.cpp", "timer_thread", quick=3, thorough=45, oracles=["c01.", "c07.lost", "c07.double"] + RT_LIVE + RT_MEM),
            B("w_sched.cpp", "sched_timed", quick=2, thorough=30, oracles=["c01.", "c06.lost", "c06.double"] + RT_LIVE),
            # scopes: the attach/nest/future operations arbitrate "who completes the receiver" between the child and two stop paths
            B("w_scope.cpp", "scope_v1", quick=4, thorough=60, oracles=["c01.", "c08.double", "c08.join-double", "c08.join-lost", "c09.outcome"] + RT_LIVE),
            B("w_scope.cpp", "scope_v2", quick=3, thorough=45, oracles=["c01.", "c08.double", "c08.join-double", "c08.join-lost", "c09.outcome"] + RT_LIVE),
        ],
        level_text=("Seeded sender-interpreter runs: a random expression tree (depth<=4, <=12 nodes, <=8 scripted leaves) over the real library adaptors, each node re-erased through a harness any_snd so that every edge is a tap; leaves complete inline or later on two actor threads with value/error/done and react to stop or ignore it; an external stop request is placed before start, after k yields or when a chosen leaf has started; faults: throwing callables, a throwing k-th Val copy, spurious weak-CAS failures and wake-ups; the root op state is destroyed inside the root receiver's completion in most runs. C01 oracles: at every tap and at the root at most one signal, none before start(), none without start, none after the root completed; every started node and leaf completes (lost completion = deadlock or end-of-run census). Scope batches (workload of C08/C09): nest/attach/spawn_future operations on v1 and v2 scopes, started, discarded, awaited, dropped, cancelled by their consumer while another thread stops the scope - each started receiver completes exactly once, each join exactly once."),
        level_note=("Trusted: usim stubs, harness erasure (any_snd hides statically selected paths: blocking specialisations etc.). Adaptors outside the interpreter's list are covered by the direct workloads (C06-C09, C13-C19) for their own exactly-once oracles."),
        real=["just/just_error/just_done, then, upon_error, upon_done, let_value, let_error, let_done, finally, sequence, when_all (2-3), stop_when, unstoppable, via, on, with_query_value, materialize+dematerialize, done_as_optional, let_value_with_stop_source", "single_thread_context/manual_event_loop, inline_scheduler", "inplace_stop_source, inplace_stop_token_adapter, fused_stop_source"],
        stub=["harness leaves, taps and erased any_snd plumbing (kit/expr.hpp)", "kit::sim_stop_source", "pthread layer, heap (usim)"],
    ),
    "C02": dict(
        title="Exactly-once destruction, no touch after completion",
        batches=[
            B("w_expr.cpp", "expr", quick=14, thorough=240, params="faults=1", oracles=["c02."] + RT_MEM + RT_LIB),
            B("w_expr.cpp", "expr", quick=8, thorough=120, params="faults=0", oracles=["c02."] + RT_MEM + RT_LIB),
            B("w_expr.cpp", "expr", cfg="S17r", quick=8, thorough=120, params="faults=1", oracles=["c02."] + RT_MEM + RT_LIB),
            B("w_expr.cpp", "expr", quick=8, thorough=120, params="faults=1,alloc=1", oracles=["c02.", "c04.live-registration"] + RT_MEM + RT_LIB),
            B("w_expr.cpp", "expr", quick=6, thorough=90, params="faults=1,alloc=1,more=2,wany=1", oracles=["c02.", "c04.live-registration", "c12.allocator-pairing"] + RT_MEM + RT_LIB),
            # adaptors that heap-allocate state whose owner is decided by a completion/stop race (workloads of C19)
            B("w_cancel.cpp", "cancel_detach", quick=4, thorough=60, oracles=["c02."] + RT_ALL),  # (RT_LIVE: the harness waits for the detached child to be destroyed)
            B("w_cancel.cpp", "cancel_sor", quick=2, thorough=30, oracles=["c02."] + RT_ALL),
        ],
        level_text=("Seeded sender-interpreter runs: a random expression tree (depth<=4, <=12 nodes, <=8 scripted leaves) over the real library adaptors, each node re-erased through a harness any_snd so that every edge is a tap; leaves complete inline or later on two actor threads with value/error/done and react to stop or ignore it; an external stop request is placed before start, after k yields or when a chosen leaf has started; faults: throwing callables, a throwing k-th Val copy, spurious weak-CAS failures and wake-ups; the root op state is destroyed inside the root receiver's completion in most runs. C02 oracles: tracked Val objects (construct-on-live, double destroy, use after destroy, leak), every op state of every node destroyed exactly once and never while started-and-uncompleted, arena leak check, shadow memory on every library access after the root op was freed inside its completion. The alloc=1 batch lets operator new fail (seeded, on the connecting thread only) anywhere inside the top-level connect() - the heap operation of any_sender_of and every nested connect - and requires the exception to propagate out of connect() with every partially built operation state destroyed once, no stop-callback registration left behind and no leak."),
        level_note=('Trusted: as C01. Allocation failures are injected during connect only: start() and the completion paths are noexcept, an allocation failure there terminates by design (spawn/allocate failures are in the scope/future checks).'),
        real=["just/just_error/just_done, then, upon_error, upon_done, let_value, let_error, let_done, finally, sequence, when_all (2-3), stop_when, unstoppable, via, on, with_query_value, materialize+dematerialize, done_as_optional, let_value_with_stop_source", "single_thread_context/manual_event_loop, inline_scheduler", "inplace_stop_source, inplace_stop_token_adapter, fused_stop_source"],
        stub=["harness leaves, taps and erased any_snd plumbing (kit/expr.hpp)", "kit::sim_stop_source", "pthread layer, heap (usim)"],
    ),
    "C04": dict(
        title="Stop requests reach running children; no callback outlives completion",
        batches=[
            B("w_expr.cpp", "expr", quick=14, thorough=240, params="faults=1", oracles=["c04."] + RT_LIVE),
            B("w_expr.cpp", "expr", quick=8, thorough=120, params="faults=0", oracles=["c04."] + RT_LIVE),
            B("w_expr.cpp", "expr", quick=6, thorough=90, params="faults=1,more=2,wany=1", oracles=["c04."] + RT_LIVE),
            # stream adaptors that interpose a stop source / forward stop to the source's next() (take_until, stop_immediately, type_erase, on_stream):
            # release build so that the adaptors' state assertions are compiled out and only the stop oracle decides
            B("w_stream.cpp", "stream", cfg="S17r", quick=5, thorough=60, oracles=["c04."] + RT_LIVE),
            B("w_stream.cpp", "stream", quick=3, thorough=45, oracles=["c04."] + RT_LIVE + RT_LIB),
            # cancelled / dropped futures: the loser is asked to stop before the future's receiver is completed, and nothing of the
            # shared state is touched after it may have been handed over
            B("w_scope.cpp", "scope_v2", quick=4, thorough=60, oracles=["c04.", "c09.cancel-no-stop"] + RT_LIVE + RT_MEM),
            B("w_scope.cpp", "scope_v1", quick=3, thorough=45, oracles=["c04.", "c09.cancel-no-stop", "c08.cleanup-no-stop"] + RT_LIVE + RT_MEM),
        ],
        level_text=("Seeded sender-interpreter runs: a random expression tree (depth<=4, <=12 nodes, <=8 scripted leaves) over the real library adaptors, each node re-erased through a harness any_snd so that every edge is a tap; leaves complete inline or later on two actor threads with value/error/done and react to stop or ignore it; an external stop request is placed before start, after k yields or when a chosen leaf has started; faults: throwing callables, a throwing k-th Val copy, spurious weak-CAS failures and wake-ups; the root op state is destroyed inside the root receiver's completion in most runs. C04 oracles: a leaf that completes after the external request_stop() returned (and is not under unstoppable) sees stop_requested()==true on the token it was given; leaves started after it start already-stopped; losers of when_all / stop_when see the internal stop; with the counting harness stop source at the root no registration is live when the root receiver is entered and the source is never touched afterwards."),
        level_note=('Trusted: as C01. Only when_all, stop_when and let_value_with_stop_source interpose stop sources in this workload; futures/scopes are in their own checks. The stream batches (workload of C13) add take_until and stop_immediately: a next() of the source that completes after request_stop() on the consumer returned must have seen the stop request.'),
        real=["just/just_error/just_done, then, upon_error, upon_done, let_value, let_error, let_done, finally, sequence, when_all (2-3), stop_when, unstoppable, via, on, with_query_value, materialize+dematerialize, done_as_optional, let_value_with_stop_source", "single_thread_context/manual_event_loop, inline_scheduler", "inplace_stop_source, inplace_stop_token_adapter, fused_stop_source"],
        stub=["harness leaves, taps and erased any_snd plumbing (kit/expr.hpp)", "kit::sim_stop_source", "pthread layer, heap (usim)"],
    ),
    "C05": dict(
        title="Algorithm results equal the documented function",
        batches=[
            B("w_expr.cpp", "expr", quick=14, thorough=240, params="faults=1", oracles=["c05."] + RT_MEM),
            B("w_expr.cpp", "expr", quick=8, thorough=120, params="faults=0", oracles=["c05."] + RT_MEM),
            B("w_expr.cpp", "expr", quick=8, thorough=120, params="faults=0,wany=1", oracles=["c05.", "c01.", "c02.", "c04."] + RT_LIVE),
            B("w_expr.cpp", "expr", quick=6, thorough=90, params="faults=1,wany=1", oracles=["c05.", "c01.", "c02.", "c04."] + RT_LIVE),
            B("w_expr.cpp", "expr", quick=6, thorough=90, params="faults=1,more=2", oracles=["c05.", "c01.", "c02.", "c04."] + RT_LIVE),
            B("w_expr.cpp", "expr", quick=4, thorough=60, params="faults=1,syncw=1", oracles=["c05.", "c01.", "c02."] + RT_LIVE + RT_MEM),  # sync_wait() returns exactly the root's result
        ],
        level_text=("Seeded sender-interpreter runs: a random expression tree (depth<=4, <=12 nodes, <=8 scripted leaves) over the real library adaptors, each node re-erased through a harness any_snd so that every edge is a tap; leaves complete inline or later on two actor threads with value/error/done and react to stop or ignore it; an external stop request is placed before start, after k yields or when a chosen leaf has started; faults: throwing callables, a throwing k-th Val copy, spurious weak-CAS failures and wake-ups; the root op state is destroyed inside the root receiver's completion in most runs. The wany=1 batches add when_any (2-3 children) to the node set: the result must be that of the first child to complete - value, error or done - where 'first' is decided by the tap order (overlapping completions: any of them), done is accepted when a stop request could be visible; its losers must see the stop request (C04 oracle). C05 oracles: a local reference model evaluated at every tap instance from the *observed* child outcomes: then/upon_*/let_* fire exactly on their channel and forward the others, throwing callables become set_error(that exception), sequence/let/finally start the next step only after the previous completed and short-circuit, when_all yields all values or the first error/done (overlapping completions: either), stop_when the source's result, done_as_optional/materialize round trips, via/on forward (done allowed only when a stop could be visible); callable invocation counts equal matching child completions."),
        level_note=('Trusted: as C01; the model encodes doc/api_reference.md plus the precedence rules read from the code (Appendix C of DESIGN.md). sync_wait consumes the expression in a third of the runs of the syncw=1 batch (no stop token, its own scheduler); the more=1 batches add repeat_effect_until (1-3 rounds, optionally a throwing predicate), defer, let_value_with, let_value_with_stop_token, allocate, into_variant, variant_sender and with_allocator as (transparent) nodes.'),
        real=["just/just_error/just_done, then, upon_error, upon_done, let_value, let_error, let_done, finally, sequence, when_all (2-3), stop_when, unstoppable, via, on, with_query_value, materialize+dematerialize, done_as_optional, let_value_with_stop_source", "single_thread_context/manual_event_loop, inline_scheduler", "inplace_stop_source, inplace_stop_token_adapter, fused_stop_source"],
        stub=["harness leaves, taps and erased any_snd plumbing (kit/expr.hpp)", "kit::sim_stop_source", "pthread layer, heap (usim)"],
    ),
    "C12": dict(
        title="Receiver queries reach all children",
        batches=[
            B("w_expr.cpp", "expr", quick=8, thorough=90, params="faults=1", oracles=["c12.", "c04.started-after-stop", "c04.child-not-stopped", "c04.loser-not-stopped"]),
            B("w_expr.cpp", "expr", quick=4, thorough=45, params="faults=0", oracles=["c12.", "c04.started-after-stop", "c04.child-not-stopped", "c04.loser-not-stopped"]),
            B("w_expr.cpp", "expr", quick=6, thorough=90, params="faults=1,more=2,alloc=1", oracles=["c12.", "c04.started-after-stop", "c04.child-not-stopped", "c04.loser-not-stopped"]),
            # stream adaptors that interpose their own stop source (stop_immediately, take_until) must still chain the parent's request
            B("w_stream.cpp", "stream", cfg="S17r", quick=4, thorough=60, oracles=["c04.stop-reaches-child"] + RT_LIVE),
        ],
        level_text=("Seeded sender-interpreter runs: a random expression tree (depth<=4, <=12 nodes, <=8 scripted leaves) over the real library adaptors, each node re-erased through a harness any_snd so that every edge is a tap; leaves complete inline or later on two actor threads with value/error/done and react to stop or ignore it; an external stop request is placed before start, after k yields or when a chosen leaf has started; faults: throwing callables, a throwing k-th Val copy, spurious weak-CAS failures and wake-ups; the root op state is destroyed inside the root receiver's completion in most runs. C12 oracle: every started leaf records get_scheduler / get_allocator / a custom query CPO as seen through the receiver it was given; they must equal the root receiver's answers modified only by on (scheduler) and with_query_value (custom CPO) on the path; get_stop_token chaining is decided by C04's oracles on the same runs."),
        level_note=('Honest scope: the forwarding clause is a function of the program only; the simulator contributes the generated programs. allocate()/with_allocator pairing is covered by the more=1 batch (every allocation made through an allocator obtained from a receiver goes back to that allocator, also when a nested connect throws or an allocation fails); the allocator argument of spawn_detached/spawn_future is checked for pairing on the scope workloads (C08/C09 executions; oracle c12.allocator-pairing is decided there).'),
        real=["just/just_error/just_done, then, upon_error, upon_done, let_value, let_error, let_done, finally, sequence, when_all (2-3), stop_when, unstoppable, via, on, with_query_value, materialize+dematerialize, done_as_optional, let_value_with_stop_source", "single_thread_context/manual_event_loop, inline_scheduler", "inplace_stop_source, inplace_stop_token_adapter, fused_stop_source"],
        stub=["harness leaves, taps and erased any_snd plumbing (kit/expr.hpp)", "kit::sim_stop_source", "pthread layer, heap (usim)"],
    ),
    "C08": dict(
        title="async_scope join completes only after all nested work has finished",
        batches=[
            B("w_scope.cpp", "scope_v2", quick=10, thorough=150, oracles=["c08.", "c01."] + RT_LIVE + RT_LIB),
            B("w_scope.cpp", "scope_v1", quick=8, thorough=120, oracles=["c08.", "c01."] + RT_LIVE + RT_LIB),
            B("w_scope.cpp", "scope_v0", quick=4, thorough=60, oracles=["c08.", "c01.", "c02.", "c09.throw"] + RT_ALL),
            B("w_scope.cpp", "scope_v2", params="faults=1", quick=4, thorough=60, oracles=["c08.", "c01."] + RT_LIVE + RT_LIB),
            B("w_scope.cpp", "scope_v1", params="faults=1", quick=4, thorough=60, oracles=["c08.", "c01."] + RT_LIVE + RT_LIB),
            B("w_scope.cpp", "scope_v0", params="faults=1", quick=3, thorough=45, oracles=["c08.", "c01.", "c02.", "c09.throw"] + RT_ALL),
        ],
        level_text=("Seeded exploration over the real v2 and v1 async_scope: 1-3 worker threads issue 1-10 pieces of work (nest+start, nest+discard, "
                    "nest+connect+discard-unstarted, spawn_detached, spawn_future awaited / dropped / awaited-then-cancelled, v1 attach) whose nested "
                    "senders are scripted gates (inline or opened later by an opener thread; value/error/done; honouring stop or not) while 1-2 "
                    "threads start join() (v1: complete()/cleanup(), optionally a racing request_stop()). Oracles: when a join receiver is entered "
                    "every started piece of work has delivered its completion; no work starts or completes after a join completion; work nested "
                    "strictly after the scope was closed never starts and completes with done; discarded nest-senders never start their work; "
                    "every started join completes exactly once with value (deadlock = lost join); v1 cleanup()/request_stop() is observed by "
                    "outstanding work; scope destructor assertions (use_count()==0). "
                    "v0::async_scope: spawn() of void senders from 1-3 threads against complete()/cleanup()/request_stop(), same join oracles. "
                    "faults=1 batches: allocation failures (operator new throws, per issuing thread) while an item is issued and nested senders "
                    "whose connect() throws: the exception must leave the scope as if the item had never been issued (joins still complete, the "
                    "operation was not started, whatever had been connected is destroyed, nothing leaks)."),
        level_note=("Trusted: usim stubs. join receivers use the inline scheduler."),
        real=["unifex::v0::async_scope (spawn, complete, cleanup, request_stop)", "unifex::v2::async_scope (nest, join)", "unifex::v1::async_scope (spawn, detached_spawn, attach, complete, cleanup, request_stop)", "spawn_detached, spawn_future, nest",
              "v1 async_manual_reset_event", "let_value_with_stop_token, let_value_with, variant_sender, sequence, just_from"],
        stub=["harness gates (kit/gate.hpp)", "pthread layer, heap (usim)"],
    ),
    "C09": dict(
        title="A future yields its operation's result or done; shared state freed once",
        batches=[
            B("w_scope.cpp", "scope_v2", quick=10, thorough=150, oracles=["c09.", "c12.allocator-pairing"] + RT_MEM + RT_LIB),
            B("w_scope.cpp", "scope_v1", quick=8, thorough=120, oracles=["c09.", "c12.allocator-pairing"] + RT_MEM + RT_LIB),
            B("w_scope.cpp", "scope_v2", params="faults=1", quick=6, thorough=90, oracles=["c09.", "c02.", "c12.allocator-pairing"] + RT_MEM + RT_LIB),
            B("w_scope.cpp", "scope_v1", params="faults=1", quick=5, thorough=60, oracles=["c09.", "c02.", "c12.allocator-pairing"] + RT_MEM + RT_LIB),
            # tval=1: one future per run carries a class-type value whose move constructor throws at a drawn move (into or out of the shared state)
            B("w_scope.cpp", "scope_v2", params="tval=1", quick=4, thorough=60, oracles=["c09.", "c02."] + RT_MEM + RT_LIB),
            B("w_scope.cpp", "scope_v1", params="tval=1", quick=3, thorough=45, oracles=["c09.", "c02."] + RT_MEM + RT_LIB),
        ],
        level_text=("Same executions as C08 (scope workloads) with the future oracles: a future awaited with or without a later cancellation, or "
                    "dropped before/after its operation completes, on another thread than the completer. Oracles: value/error equal to what the "
                    "spawned gate delivered; done only if the operation was done, never admitted, cancelled before the result was available (a "
                    "result available before the await started is delivered), or (v1) the scope's stop source fired; a cancelled future's "
                    "operation observes the stop request; the shared heap state is allocated in the arena: double free, leak at end of run and "
                    "any library access after it was freed are reported by the runtime (shadow memory). "
                    "faults=1 batches: operator new fails (seeded, only on the thread issuing the item) inside spawn_future/spawn_detached/spawn, and "
                    "nested senders throw from connect(): no operation is started, no receiver completed, the half-built shared state and the "
                    "connected operation are destroyed exactly once and nothing is leaked; the scope still joins."),
        level_note=("Trusted: usim stubs. Not driven: the terminate-on-error clause of spawn_detached (a process exit, not observable inside one run)."),
        real=["spawn_future (future<>, _spawn_future_op, drop/abandon/complete protocol)", "spawn_detached", "v1/v2 async_scope"],
        stub=["harness gates", "pthread layer, heap (usim)"],
    ),
    "C19": dict(
        title="Completion vs cancellation races have one winner in the cancel wrappers",
        batches=[
            B("w_cancel.cpp", "cancel_detach", quick=7, thorough=120, oracles=["c19.", "c02.", "c04."] + RT_ALL),
            B("w_cancel.cpp", "cancel_raw", quick=7, thorough=120, oracles=["c19.", "c02.", "c04."] + RT_ALL),
            B("w_cancel.cpp", "cancel_sor", quick=5, thorough=60, oracles=["c19.", "c02.", "c04."] + RT_ALL),
            B("w_cancel.cpp", "cancel_canary", quick=4, thorough=60, oracles=["c19."] + RT_ALL),
            B("w_create.cpp", "create", quick=4, thorough=60, oracles=["c19."] + RT_ALL),
            B("w_create.cpp", "create", params="race=0", quick=4, thorough=90, oracles=["c19."] + RT_ALL),
            B("w_create.cpp", "create", cfg="S20r", params="race=0", quick=3, thorough=45, oracles=["c19."] + RT_ALL),
        ],
        level_text=("Seeded exploration of the four-party race {start() body, completion on a completer/opener thread, stop request on a stopper "
                    "thread, destruction of the op state by the receiver inside its completion} over the real detach_on_cancel (gate child "
                    "honouring stop or not), cancellable<> + try_complete with a harness nested operation (completion inside start, from "
                    "another thread, or never; StopsEarly on/off; stop before start, racing, after completion), stop_on_request over the "
                    "receiver's token plus 0-2 external tokens (inplace and third-party) with 1-3 concurrent stoppers, and canary/watcher/guard "
                    "(destructor vs alive()/guard release on another thread). Oracles: exactly one completion and exactly one try_complete "
                    "winner; the stop() hook runs at most once, only on a started, not-yet-completed op (or instead of start() in skip-start "
                    "mode); detach_on_cancel delivers done before request_stop() returns and the abandoned child is finished and freed exactly "
                    "once; stop_on_request completes only after a request and leaves no registration behind; alive()==true implies ~canary has "
                    "not returned until the guard is released, false implies it had begun; no deadlock; shadow memory on the freed op states. "
                    "create_basic_sender (C++20): one operation per run in three flavours (default recursive lock; sends_done=false; user context + "
                    "user lock factory); the start event hands safe / safe+fallback / opaque-safe / unsafe / opaque-unsafe callbacks and errbacks to "
                    "1-3 event-source threads that fire them once or twice, before, while or after another one completes the operation, or "
                    "re-entrantly from inside start(); stop before start, racing, or after start returned; the harness frees the operation state as "
                    "soon as the receiver is completed. Oracles: events of one operation never overlap on two threads, no event after the receiver "
                    "was completed or after the body completed the operation, start/stop events at most once, stop event only on a started "
                    "uncompleted operation whose stop was requested, early cancellation runs no event, the receiver gets exactly what the body "
                    "completed with first, every fire of a callback with a fallback ends in the body or in the fallback, a mutex inside freed "
                    "memory is never locked. A second batch (race=0) keeps callbacks and stop requests from being in flight while another one "
                    "completes the operation, so that the rest of the behaviour is explored without hitting the recorded finding."),
        level_note=("Trusted: usim stubs. create_raw_sender/lambda_op carry no protocol of their own (exercised as the carrier of create_basic_sender); "
                    "cancellable is additionally exercised through the v2 mutex/event and async_pass workloads (C15, C16)."),
        real=["detach_on_cancel", "cancellable + try_complete", "stop_on_request", "canary / watcher / guard", "inplace_stop_source",
              "create_basic_sender / create_raw_sender (safe, unsafe, opaque callbacks; fallbacks; lock and context factories)"],
        stub=["harness gates and the nested raw operation", "kit::sim_stop_source", "pthread layer, heap (usim)"],
    ),
    "C17": dict(
        title="Bulk operations visit each index once before completing; find_if is exact",
        batches=[
            B("w_bulk.cpp", "bulk", quick=8, thorough=120, oracles=["c17."] + RT_ALL),
            B("w_bulk.cpp", "find_if", quick=8, thorough=120, oracles=["c17."] + RT_ALL),
            B("w_bulk.cpp", "find_if", cfg="S17r", quick=5, thorough=60, oracles=["c17."] + RT_ALL),
            B("w_bulk.cpp", "bulk", cfg="S17r", quick=4, thorough=60, oracles=["c17."] + RT_ALL),
            B("w_bulk.cpp", "find_if", params="parsched=1", quick=5, thorough=90, oracles=["c17."] + RT_ALL),
            B("w_bulk.cpp", "bulk", params="parsched=1", quick=4, thorough=60, oracles=["c17."] + RT_ALL),
            B("w_bulk.cpp", "bulk", params="bthrow=1", quick=3, thorough=45, oracles=["c17."] + RT_ALL),  # a per-element function that throws at a drawn index: set_error, nothing after it
            B("w_bulk.cpp", "bulk", cfg="S17r", params="bthrow=1", quick=2, thorough=30, oracles=["c17."] + RT_ALL),
        ],
        level_text=("Seeded runs of bulk_join(bulk_transform(bulk_schedule(sched, n), f, policy)) with n drawn from {0, 1, 2, around the "
                    "cancellation chunk size 15/16/17, 31-33, 47-49, 64, 100, random < 130, 100-1100}, all four execution policies, inline / "
                    "single_thread_context / static_thread_pool(2) schedulers, and a stop request before start, from inside index k (biased to the "
                    "last cancellation chunk) or from another thread; and of find_if (seq and par) over an arena block of exactly n ints with red "
                    "zones, match positions none/one/first/several. Oracles: every index at most once and below n, nothing after or concurrently "
                    "with the terminal signal, no overlap under non-parallel policies, value completion iff all indices were visited, done only "
                    "after a stop request; find_if result equals std::find_if and the predicate only sees addresses inside the range (any other "
                    "dereference also trips the shadow memory). The parsched=1 batches add a harness scheduler that customises bulk_schedule and runs set_next on 2-3 threads concurrently under par/par_unseq (no scheduler of the library does), claiming indices in iteration-space order and testing the stop token before every claim: find_if(par) must still return the first match by position, every index is visited once, the terminal signal comes after the last set_next returned."),
        level_note=("Honest scope: this property is input-dominated; the simulator contributes the stop-mid-chunk timing, the worker "
                    "interleavings on the pool and the poisoned/red-zoned memory. indexed_for is not driven."),
        real=["bulk_schedule, bulk_transform, bulk_join", "find_if (sequential and parallel paths: let_value_with, let_value_with_stop_source, let_done)",
              "static_thread_pool, single_thread_context, inline_scheduler"],
        stub=["pthread layer, heap with red zones (usim)"],
    ),
    "C13": dict(
        title="Streams deliver the adapted sequence in order and clean up exactly once",
        batches=[
            B("w_stream.cpp", "stream", quick=14, thorough=240, oracles=["c13.", "c01.", "c02."] + RT_ALL),
            B("w_stream.cpp", "stream", cfg="S17r", quick=6, thorough=90, oracles=["c13.", "c01.", "c02."] + RT_ALL),
            B("w_stream.cpp", "stream", params="rthrow=1", quick=5, thorough=60, oracles=["c13.", "c01.", "c02."] + RT_ALL),
            B("w_streamlib.cpp", "streamlib", quick=6, thorough=90, oracles=["c13.", "c01.", "c02.", "c07.early", "c11.via"] + RT_ALL),
            B("w_streamlib.cpp", "streamlib", cfg="S17r", quick=3, thorough=45, oracles=["c13.", "c01.", "c02.", "c07.early", "c11.via"] + RT_ALL),
        ],
        level_text=("Seeded runs of reduce_stream over twelve adaptor pipelines (plain source, transform, filter, take_until, stop_immediately, "
                    "type_erase, filter(transform), on_stream, transform(filter), stop_immediately(transform), take_until(filter), "
                    "type_erase(take_until)) above scripted source streams: 0-6 elements, an optional failing next() at a drawn position, every "
                    "next()/cleanup() sender a harness gate that completes inline or is opened later by an opener thread and honours stop or not; "
                    "the take_until trigger fires after a drawn number of source pulls; a stop request arrives before start, from a stopper "
                    "thread or from inside element k; consumer on the inline scheduler or a single_thread_context. Oracles: delivered elements are "
                    "a prefix of (and without stop/trigger exactly) the sequence the adaptor's definition prescribes, in order; the result is the "
                    "fold over precisely those elements, an error only if the source failed, never done; per underlying stream whose next() was "
                    "started: cleanup() exactly once, after the outstanding next() completed and before the consumer's result; next() operations "
                    "never overlap; child op states are never destroyed while running; shadow memory and leak checks. The rthrow=1 batch lets the reducer "
                    "throw at a drawn element: the consumer must get that error, after cleanup() has run exactly once. "
                    "w_streamlib drives the library's own sources and the remaining adaptors: fifteen pipelines over range_stream, single, "
                    "never_stream - transform, filter, take_until(never_stream | range, trigger gate), delay, via_stream, typed_via_stream, "
                    "on_stream, next_adapt_stream, cleanup_adapt_stream, stop_immediately, type_erase, stop_immediately(delay) - consumed by "
                    "reduce_stream or for_each with stop before start / racing / from inside element k: delivered elements are an in-order prefix "
                    "of the prescribed sequence (all of it unless a stop or the trigger cut it), the fold equals the fold over them, done only after "
                    "a stop request, delay() never delivers element i before i+1 delays elapsed on the simulated clock, via/typed_via/on_stream "
                    "deliver on the scheduler's thread."),
        level_note=("Trusted: usim stubs, harness gates. Not driven: a manual consumer calling cleanup() without next() (outside the statement: it "
                    "speaks of streams whose next() was started); cleanup-count oracles need the scripted sources, so they are not evaluated for the "
                    "library sources."),
        real=["reduce_stream, for_each", "transform_stream, filter_stream, adapt_stream/next_adapt_stream/cleanup_adapt_stream", "take_until", "stop_immediately", "type_erased_stream (+any_scheduler)", "on_stream, via_stream, typed_via_stream, delay", "range_stream, single, never_stream"],
        stub=["scripted source streams and gates (kit/gate.hpp)", "pthread layer, heap (usim)"],
    ),
    "C18": dict(
        title="Type-erased wrappers behave exactly like the object they wrap",
        batches=[
            B("w_erase.cpp", "any_object", quick=6, thorough=90, oracles=["c18."] + RT_ALL),
            B("w_erase.cpp", "any_unique", quick=3, thorough=45, oracles=["c18."] + RT_ALL),
            B("w_expr.cpp", "expr", quick=10, thorough=150, params="faults=1,wrap=1", oracles=["c18.", "c05.outcome", "c01.", "c04.child-not-stopped", "c04.started-after-stop", "c12.query"] + RT_LIVE),
            B("w_stream.cpp", "stream", quick=5, thorough=60, oracles=["c13.", "c01."] + RT_ALL),
            B("w_anysnd.cpp", "anysnd_sim", quick=4, thorough=60, oracles=["c18.", "c01.", "c02.", "c04."] + RT_ALL),
            B("w_anysnd.cpp", "anysnd_inplace", quick=3, thorough=45, oracles=["c18.", "c01.", "c02.", "c04."] + RT_ALL),
            B("w_anysnd.cpp", "anysnd_sim", cfg="S17r", quick=3, thorough=45, oracles=["c18.", "c01.", "c02.", "c04."] + RT_ALL),
            B("w_anysnd.cpp", "anysched_sim", quick=3, thorough=45, oracles=["c18.", "c01.", "c02.", "c04."] + RT_ALL),
            B("w_anysnd.cpp", "anysched_inplace", quick=2, thorough=30, oracles=["c18.", "c01.", "c02.", "c04."] + RT_ALL),
        ],
        level_text=("(b) Seeded operation sequences on three basic_any_object<24,8,RequireNoexceptMove,...> wrappers (both settings) and any_unique "
                    "wrappers: in-place construction from small / large(heap) / throwing-move / over-aligned tracked types, value assignment, "
                    "wrapper move-assignment (incl. self), move-construction, invocation of a type-erased CPO, destruction, with a throwing k-th "
                    "move and failing allocations, against a reference model (one optional id per wrapper): the CPO answer equals the wrapped "
                    "object's, each held id has exactly one live object, nothing is ever copied, every object and moved-from remainder is "
                    "destroyed exactly once, misaligned storage is flagged, exceptions propagate and leave both wrappers destructible; arena "
                    "double-free/leak checks. (a) any_sender_of<> inserted as an identity node at random positions of the sender interpreter "
                    "(wrap=1): completions equal the wrapped sender's (c18.transparent), a stop request reaches the wrapped leaves through the "
                    "adapted token (C04 leaf oracles), the wrapper forwards exactly its declared query set (C12 oracle: only the stop token); "
                    "type_erased_stream is an identity node in two of the C13 pipelines (same oracles as C13). "
                    "any_sender_of<> is also driven directly (w_anysnd) against a receiver whose stop token is a third-party token or an "
                    "inplace_stop_token: 1-3 operations in sequence on one stop source, the wrapped sender's connect() throwing or operator new failing "
                    "while the erased operation is built, stop requested before connect / after a failed connect / racing the completion: a failed "
                    "connect leaves no callback registered on the receiver's source (what a direct connect of the wrapped sender does), nothing started or leaked; a "
                    "successful one delivers the wrapped result, forwards stop, and leaves no registration behind. any_scheduler / any_scheduler_ref over "
                    "inline_scheduler, a single_thread_context scheduler and a static_thread_pool scheduler: copies compare equal, equality of wrappers "
                    "equals equality of the wrapped schedulers, 1-4 schedule() operations through the wrapper complete where schedule() of the wrapped "
                    "scheduler does (inline / on the context's thread / on a pool thread), done only after a stop request, a failed allocation of the "
                    "erased operation leaves nothing registered."),
        level_note=("Honest scope: (b) has no concurrency or time in it; what this family contributes is seeded op+fault sequences against a model, "
                    "the poisoned arena and replay/shrinking. Not driven: any_ref, swap."),
        real=["basic_any_object (inline and heap storage, invalid_obj parking)", "any_unique", "any_sender_of<> (+inplace_stop_token_adapter_subscription)", "type_erased_stream"],
        stub=["tracked wrapped types", "heap with injected bad_alloc (usim arena)"],
    ),
    "C10": dict(
        title="Coroutine tasks map sender results faithfully and always run their cleanup",
        batches=[
            B("w_coro.cpp", "coro", quick=14, thorough=240, oracles=["c10.", "c01.", "c02."] + RT_ALL),
            B("w_coro.cpp", "coro", cfg="S20r", quick=6, thorough=90, oracles=["c10.", "c01.", "c02."] + RT_ALL),
        ],
        level_text=("Seeded coroutine-interpreter runs (C++20): a recursive task<long> executes a drawn plan of up to 4 nested tasks x 5 steps: "
                    "co_await of scripted gates (value/error/done; inline or completed by a foreign opener thread; honouring stop or not), nested "
                    "tasks, co_await schedule(ctx) onto one of two single_thread_contexts, thrown exceptions, co_await just_done(), optional "
                    "try/catch around a step, 0-3 at_coroutine_exit actions per task and two tracked locals; the root task runs through "
                    "on(scheduler, task) under a stoppable receiver with a stop request before start or when a chosen gate is suspended (half of "
                    "those gates can only be completed by the stop request, so a request that never reaches the awaited sender is a deadlock). "
                    "Oracles: the receiver's value / error / done equals a reference interpretation of the plan over what the gates delivered "
                    "(done allowed after a stop request), exit actions run exactly once per entered task, in reverse registration order and "
                    "before the receiver is completed, every local is destroyed, no task body is entered twice, coroutine frames are arena "
                    "blocks (leak / double free / touch-after-free), deadlock detection."),
        level_note=("Trusted: usim stubs, gcc 12 coroutine code generation. Not driven: awaitable<->sender round trips of foreign awaitables "
                    "(connect_awaitable/as_sender), nothrow_task, sa_task."),
        real=["task<T> (promise, sr-thunk, await_transform, with_scheduler_affinity, unhandled_done)", "at_coroutine_exit", "on, schedule on single_thread_context", "inplace_stop_source"],
        stub=["harness gates", "pthread layer, heap (usim)"],
    ),
    "C11": dict(
        title="Completions happen on the promised context",
        batches=[
            B("w_coro.cpp", "coro", quick=10, thorough=150, oracles=["c11."]),
            B("w_expr.cpp", "expr", quick=8, thorough=120, params="faults=0", oracles=["c11."]),
            B("w_mutex.cpp", "mutex_v2", quick=5, thorough=60, oracles=["c11."]),
            B("w_event.cpp", "event_v2", quick=4, thorough=60, oracles=["c16.context"]),
            B("w_event.cpp", "event_v1", quick=4, thorough=60, oracles=["c16.context"]),
            B("w_event.cpp", "pass", quick=4, thorough=60, oracles=["c16.context"]),
            B("w_traits.cpp", "traits", quick=8, thorough=120, oracles=["c11.", "c01."] + RT_ALL),
            B("w_traits.cpp", "traits", cfg="S17r", quick=4, thorough=60, oracles=["c11.", "c01."] + RT_ALL),
        ],
        level_text=("Context oracles evaluated on the executions of five workloads, with gates/leaves completed by foreign threads: inside "
                    "task<> the thread after every co_await (gate, nested task, schedule) is the thread of the task's current scheduler, which "
                    "changes only at co_await schedule(s), and the task completes on its scheduler; via(ctx) delivers on the scheduler's "
                    "thread; v2 async_mutex, v1/v2 async_manual_reset_event and async_pass value completions arrive on the waiter's "
                    "scheduler thread even when set/unlock/accept happen on another thread. "
                    "Static-trait clauses (w_traits): ~150 typed, un-erased expressions - 16 unary adaptors x 4 leaf flavours (always_inline with and "
                    "without done, maybe, never), 7 binary adaptors (let_value/error/done, sequence, finally, when_all, stop_when) x 6 flavour pairs, "
                    "schedule()/schedule_after() of inline, trampoline, single_thread_context, static_thread_pool and timed_single_thread_context, "
                    "via/on over a real context - whose leaves' own claims are true by construction; one case per run with drawn outcomes and a stop "
                    "request before start, racing or absent. Checked per run: sender_traits<>::blocking vs the value of the blocking() CPO (may refine, "
                    "never contradict); always_inline => the receiver is completed inside start() on the starting thread; always => before start() "
                    "returns; sends_done=false => never done. A broken `never` is only counted (the property as given does not constrain it)."),
        level_note=("on() start context is implied by the C12 scheduler query oracle only; with_scheduler_affinity outside task<> is not driven; "
                    "is_always_scheduler_affine is checked for the event/mutex/pass/task senders only."),
        real=["task<> scheduler affinity", "via", "v2 async_mutex, v1/v2 events, async_pass completion hops",
              "static traits and blocking() customisations of 23 adaptors and 5 schedulers (typed expressions)"],
        stub=["pthread layer (usim)"],
    ),
    "C20": dict(
        title="Build configuration never changes results; async-stack bookkeeping is balanced",
        compare=[
            dict(src="w_expr.cpp", name="expr", params="faults=1", quick=6400, thorough=48000,
                 configs_quick=["S20d", "S17r", "S20r", "S17d"], configs=["S20d", "S17r", "S20r", "S17d", "S20dv", "S17rv", "S20rv", "S17dv"]),
            dict(src="w_stream.cpp", name="stream", params="cmp=1", quick=3200, thorough=24000,
                 configs_quick=["S20d", "S17r"], configs=["S20d", "S17r", "S20r", "S17d"]),
            dict(src="w_coro.cpp", name="coro", params="", quick=3200, thorough=24000,
                 configs_quick=["S20d", "S20r"], configs=["S20d", "S20r", "S20dv", "S20rv"]),
        ],
        batches=[
            B("w_expr.cpp", "expr", cfg="S17r", quick=6, thorough=90, params="faults=1", oracles=["c01.", "c02.", "c04.", "c05.", "c12.", "c20."] + RT_ALL),
            B("w_expr.cpp", "expr", cfg="S20d", quick=6, thorough=90, params="faults=1", oracles=["c20."]),
            B("w_expr.cpp", "expr", cfg="S20d", quick=3, thorough=45, params="faults=1,syncw=1", oracles=["c20."]),
            # bulk: set_next is the one receiver signal that may throw; the injected async-stack wrappers (debug builds) must let it through exactly like a release build
            B("w_bulk.cpp", "bulk", cfg="S20d", params="bthrow=1", quick=3, thorough=45, oracles=["c17.", "c20."] + RT_ALL),
            B("w_bulk.cpp", "bulk", cfg="S17rv", params="bthrow=1", quick=2, thorough=30, oracles=["c17.", "c20."] + RT_ALL),  # sync_wait installs and removes the initial async stack root
            B("w_expr.cpp", "expr", cfg="S20r", quick=0, thorough=90, params="faults=1", oracles=["c01.", "c02.", "c04.", "c05.", "c12.", "c20."] + RT_ALL),
            B("w_expr.cpp", "expr", cfg="S17d", quick=0, thorough=90, params="faults=1", oracles=["c01.", "c02.", "c04.", "c05.", "c12.", "c20."] + RT_ALL),
            B("w_expr.cpp", "expr", cfg="S17rv", quick=4, thorough=60, params="faults=1", oracles=["c01.", "c02.", "c04.", "c05.", "c12.", "c20."] + RT_ALL),
            B("w_expr.cpp", "expr", cfg="S20dv", quick=4, thorough=60, params="faults=1", oracles=["c01.", "c02.", "c04.", "c05.", "c12.", "c20."] + RT_ALL),
            B("w_stream.cpp", "stream", cfg="S17d", quick=0, thorough=60, oracles=["c13.", "c01.", "c02."] + RT_ALL),
            B("w_coro.cpp", "coro", cfg="S20rv", quick=0, thorough=60, oracles=["c10.", "c11.", "c01.", "c02."] + RT_ALL),
            B("w_coro.cpp", "coro", cfg="S20d", quick=5, thorough=60, oracles=["c10.", "c11.", "c01.", "c02.", "c20."] + RT_ALL),
            B("w_coro.cpp", "coro", cfg="S20dv", quick=0, thorough=60, oracles=["c10.", "c11.", "c01.", "c02.", "c20."] + RT_ALL),
        ],
        level_text=("(1) Trace equality: the same seeds (same plan tapes) of the sender interpreter (with throwing callables, throwing copies and "
                    "connects, external stop), the stream pipelines and the coroutine interpreter are executed with the non-preemptive "
                    "strategy in every configuration of {C++17, C++20} x {NDEBUG, debug+async stacks} x {continuation visitation 0,1} (quick "
                    "tier: four / two of them) and compared run by run: verdict plus an ordered and an order-insensitive digest of every "
                    "harness-level event (channel and payload at every tap, leaf and receiver). In NDEBUG configurations UNIFEX_ASSERT compiles "
                    "to nothing, as shipped. (2) Per-configuration exploration: the preemptive exploration with the full model oracles of "
                    "C01/C02/C04/C05/C12 (C13, C10/C11) runs in the non-default configurations, so all configurations refine the same model. (3) "
                    "Async-stack balance (debug builds): tryGetCurrentAsyncStackRoot() is null on the starting thread after completion and on "
                    "every actor thread when it goes idle; the library's own async-stack assertions are verdicts. (3) async_trace chain (configurations with continuation visitation): at every leaf start of the interpreter async_trace(receiver) must reach the root receiver and pass exactly one harness erasure point per node on the path (the harness bridges report their continuation through a type-erased continuation_info); paths through any_sender_of<> are not judged (it forwards only the CPOs it was declared with)."),
        level_note=("Trusted: usim stubs; NP runs are deterministic per configuration because thread switches happen only at blocking operations. "
                    "The async_trace chain clause is decided for the adaptors of the sender interpreter only (streams, coroutines, bulk, spawn, create, detach_on_cancel, sync_wait have no such oracle; several of them have no visit_continuations customisation at all). The NDEBUG+CV configurations only build with "
                    "async_trace.hpp force-included (with_query_value.hpp uses visit_continuations without including it)."),
        real=["every adaptor of the interpreter, the stream adaptors and task<> in up to eight build configurations", "async_stack.cpp bookkeeping"],
        stub=["pthread layer, heap (usim)"],
    ),
    "C14": dict(
        title="I/O contexts complete each operation once with the true result; no stale state",
        batches=[
            B("w_io.cpp", "io_epoll", rt=("fdlayer", "uring"), quick=14, thorough=300, oracles=["c14.", "c07."] + RT_ALL),
            B("w_io.cpp", "io_epoll", cfg="S17r", rt=("fdlayer", "uring"), quick=5, thorough=120, oracles=["c14.", "c07."] + RT_ALL),
            B("w_io.cpp", "io_uring", rt=("fdlayer", "uring"), quick=14, thorough=300, oracles=["c14.", "c07."] + RT_ALL),
            B("w_io.cpp", "io_uring", cfg="S17r", rt=("fdlayer", "uring"), quick=5, thorough=120, oracles=["c14.", "c07."] + RT_ALL),
            # rerun=1: in half of the runs the loop is first run (and left at once, a stop being pending) by the main thread, which later opens the pipe and requests the final stop
            B("w_io.cpp", "io_epoll", params="rerun=1", rt=("fdlayer", "uring"), quick=3, thorough=45, oracles=["c14.", "c07."] + RT_ALL),
            B("w_io.cpp", "io_uring", params="rerun=1", rt=("fdlayer", "uring"), quick=3, thorough=45, oracles=["c14.", "c07."] + RT_ALL),
            B("w_io.cpp", "io_uring_flood", rt=("fdlayer", "uring"), quick=4, thorough=60, oracles=["c14.", "c07."] + RT_ALL),
            B("w_io.cpp", "io_epoll_wfull", rt=("fdlayer", "uring"), quick=4, thorough=60, oracles=["c14."] + RT_ALL),
            B("w_io.cpp", "io_epoll_wfull", cfg="S17r", rt=("fdlayer", "uring"), quick=2, thorough=30, oracles=["c14."] + RT_ALL),
        ],
        level_text=("io_epoll_context: the library's epoll code runs unmodified on the real kernel's epoll, eventfd and pipe objects (private "
                    "to the process, one sim thread at a time, hence deterministic); time is virtual: timerfd is an eventfd written by the "
                    "simulated clock, epoll_wait(-1) polls with timeout 0 and otherwise blocks in the simulator until a write/close/epoll_ctl/"
                    "timer expiry. Seeded runs: one run(stop_token) thread; 1-3 producers start 0-10 schedule()/schedule_at() operations "
                    "remotely (stop before start, right after, or later; hour-long timers are cancelled); a writer and a reader thread perform "
                    "up to 6 sequential async_write_some / async_read_some operations of 1-48 bytes on a pipe with per-read stop requests "
                    "(before start, while parked, racing readiness) and harness cancellation of reads that can no longer be satisfied; "
                    "faults: short reads/writes, clock jitter, stalled threads, spurious weak-CAS failure. Oracles: every item/timer/read/write "
                    "completes exactly once, on the run() thread; nothing lost (deadlock); timers never early, due order, prompt cancel; byte "
                    "counts within bounds; the bytes read are exactly the written stream in order (a cancelled read that consumed data, or any "
                    "loss/duplication, breaks the sequence); a read completed with done left its buffer untouched; done only after a stop "
                    "request; op states and buffers are freed right after completion, so any later reference by the context (including a stale "
                    "epoll registration delivering a dangling data.ptr) is a shadow-memory hit; every descriptor created in the run is closed "
                    "exactly once; run(stop) returns; context destructor. "
                    "io_uring_context: the same workload over an in-process model of the kernel side of the ring (sim/rt/uring_model.cpp, a STUB "
                    "written from io_uring_enter(2) for NOP/READV/WRITEV/POLL_ADD/TIMEOUT(abs)/TIMEOUT_REMOVE/ASYNC_CANCEL): io_uring_setup/enter "
                    "and the three ring mmaps are interposed, SQEs are issued in ring order inside io_uring_enter(), requests that would block stay "
                    "in flight and complete when the blocked submitter is woken by a write/close/timer; data moves through real descriptors. "
                    "The byte channel is a pipe re-opened by path with open_file_read_only/open_file_write_only (async_read_some_at / "
                    "async_write_some_at), and a regular file is written and read at drawn offsets against a byte-array model (the file is also "
                    "read back through the harness's own descriptor after every operation). Extra fault: completion delay/reordering "
                    "(a ready request is left in flight); extra oracles: the user memory the kernel would read or write (iovec, buffer, "
                    "timespec) is alive at that moment, each ring mapping is unmapped exactly once with its own length, the ring fd is closed. "
                    "Two defects found by this workload were confirmed on the real kernel with a native probe (findings/probes/) and fixed. "
                    "io_epoll_wfull: the pipe is shrunk to one page and filled behind the library's back, so async_write_some parks on EPOLLOUT; the parked write is cancelled (before start / after k yields) or woken by a raw drain, destroyed, and a second write on the same descriptor (parking again after a refill, or inline) follows; oracles: exactly once, done only after stop, the byte stream drained from the pipe equals fill + reported writes, and c14.stale-registration - the fd layer mirrors the kernel's epoll set and reports any block of memory freed while a registration's data.ptr still points into it (all io workloads). "
                    "io_uring_flood: 40-600 reads parked concurrently on one idle pipe (around and beyond the 512 completion-queue entries, the surplus "
                    "waiting in pendingIoQueue_), then every read is cancelled by 1-2 stopper threads: all must complete with done and run(stop) must return."),
        level_note=("NOT covered: sockets/accept, IORING_OP_* beyond the seven listed, -EALREADY from ASYNC_CANCEL, injected OS "
                    "errors (the epoll read/write paths compare readv/writev results with -EAGAIN although libc returns -1/errno; error "
                    "reporting is therefore not exercised), EINTR from epoll_wait (run() documents no recovery and throws)."),
        real=["io_epoll_context (run loop, remote queue + eventfd wake-up, timers, read/write senders, cancellation)", "safe_file_descriptor, monotonic_clock",
              "io_uring_context (run loop, ring accounting, remote queue poll, timers, read/write senders, refCount cancel protocol), mmap_region, io_uring_syscall.cpp",
              "Linux epoll / eventfd / pipe / regular file (real kernel objects)"],
        stub=["clock_gettime, timerfd (virtual time), blocking epoll_wait (simulated blocking)",
              "the kernel side of io_uring (in-process model: setup/enter/mmap interposed)", "pthread layer, heap (usim)"],
    ),
}
